//! C19 harness: executes operation sequences on the real `libtw2_buffer` API.
//!
//!   vh-buffer graph [--depth L] [--cover FILE] [--report N]
//!       stdin: TLC export of MC_Buffer (lines <<"S", state>> / <<"T", act, out, det, state'>>).
//!       Walks every path of at most L operations through the graph (plus the closes that
//!       release all views, plus `final`), executes it on the real code and compares each
//!       observed outcome with the labels of the graph's edges. Prints one JSON summary.
//!   vh-buffer run
//!       stdin: one plan per line (JSON array of act records); stdout: NDJSON events
//!       {"act":..,"out":..} (a trace for BufferTrace.tla).
//!   vh-buffer drive <seed> <runs> <maxcap> <ops>
//!       random driver (direction B); stdout: NDJSON events.
//!
//! Rust here only turns act records into API calls and projects what can be observed
//! (results, remaining(), initialized(), owner length / contents, memory) into the
//! vocabulary of Buffer.tla. A panic is an outcome {"r":"panic"}.
use arrayvec::ArrayVec;
use libtw2_buffer::{with_buffer, Buffer, BufferRef, ReadBuffer, ReadBufferMarker, ReadBufferRef, ToBufferRef};
use libtw2_packer::{with_packer, Packer};
use rand::rngs::StdRng;
use rand::{Rng, SeedableRng};
use serde_json::{json, Value};
use std::collections::{BTreeMap, HashMap};
use std::io::{BufRead, Write};
use std::panic::{catch_unwind, resume_unwind, AssertUnwindSafe};
use std::sync::atomic::{AtomicBool, AtomicUsize, Ordering};

// ------------------------------------------------------------------ operations

#[derive(Clone, Debug)]
enum Op {
    Setup { kind: String, cap: usize, len0: usize, mem0: Vec<u8> },
    Open { ks: Vec<usize>, via: u8 },
    Write { bs: Vec<u8> },
    Pk { op: u8, v: i64, bs: Vec<u8> },
    Reopen,
    RawDirty { n: usize },
    User { who: u8, bs: Vec<u8>, ks: Vec<usize>, ret: bool },
    Grow { cap: usize, tail: Vec<u8> },
    Extend { bs: Vec<u8>, it: u8 },
    Advance { bs: Vec<u8> },
    Scribble { bs: Vec<u8> },
    Close,
    CloseInit,
    Unwind,
    Read { bs: Vec<u8>, ks: Vec<usize>, rd: Rd },
    ReadClose { bs: Vec<u8>, claim: usize, rd: Rd },
    OverAdvance { n: usize },
    Touch { ks: Vec<usize> },
    Final,
}

fn bytes_of(v: &Value) -> Vec<u8> {
    v.as_array().map(|a| a.iter().map(|x| x.as_u64().unwrap_or(0) as u8).collect()).unwrap_or_default()
}
fn usizes_of(v: &Value) -> Vec<usize> {
    v.as_array().map(|a| a.iter().map(|x| x.as_u64().unwrap_or(0) as usize).collect()).unwrap_or_default()
}

/// How a view is created: with_buffer (raw owner: BufferRef::new), by hand, with_packer.
const VIA_NAMES: [&str; 3] = ["with", "manual", "packer"];
fn via_code(s: &str) -> u8 {
    VIA_NAMES.iter().position(|x| *x == s).unwrap_or_else(|| panic!("harness: unknown via {}", s)) as u8
}
/// Call sites of the buffer crate inside libtw2.
const WHO_NAMES: [&str; 4] = ["huffd", "huffc", "strbytes", "feed"];
fn who_code(s: &str) -> u8 {
    WHO_NAMES.iter().position(|x| *x == s).unwrap_or_else(|| panic!("harness: unknown call site {}", s)) as u8
}
const PK_NAMES: [&str; 5] = ["raw", "rest", "string", "int", "data"];
fn pk_code(s: &str) -> u8 {
    PK_NAMES.iter().position(|x| *x == s).unwrap_or_else(|| panic!("harness: unknown packer op {}", s)) as u8
}
/// The reader handed to read_buffer / read_buffer_ref.
const RD_NAMES: [&str; 11] = ["slice", "mutref", "boxed", "bufreader", "file", "empty", "repeat", "take", "short", "chain", "err"];
#[derive(Clone, Debug, Default)]
struct Rd {
    k: u8,
    j: usize,
    bs2: Vec<u8>,
}
fn rd_of(v: &Value) -> Rd {
    if v.is_null() {
        return Rd::default();
    }
    let name = v["k"].as_str().unwrap_or("slice");
    let k = RD_NAMES.iter().position(|x| *x == name).unwrap_or_else(|| panic!("harness: unknown reader {}", name)) as u8;
    Rd { k, j: v["j"].as_u64().unwrap_or(0) as usize, bs2: bytes_of(&v["bs2"]) }
}
fn rd_json(rd: &Rd) -> Value {
    json!({"k": RD_NAMES[rd.k as usize], "j": rd.j, "bs2": rd.bs2})
}

/// What the iterator handed to `extend` claims about its length.
const IT_NAMES: [&str; 4] = ["exact", "nohint", "under", "over"];
fn it_code(s: &str) -> u8 {
    IT_NAMES.iter().position(|x| *x == s).unwrap_or_else(|| panic!("harness: unknown iterator kind {}", s)) as u8
}
/// An iterator over bytes with a hand-written `size_hint` (claims exactly `claim` items).
struct Hinted<'a> {
    inner: std::slice::Iter<'a, u8>,
    claim: usize,
}
impl<'a> Iterator for Hinted<'a> {
    type Item = u8;
    fn next(&mut self) -> Option<u8> {
        self.inner.next().cloned()
    }
    fn size_hint(&self) -> (usize, Option<usize>) {
        (self.claim, Some(self.claim))
    }
}

fn parse_op(a: &Value) -> Op {
    match a["a"].as_str().unwrap_or("") {
        "setup" => Op::Setup {
            kind: a["kind"].as_str().unwrap_or("").to_string(),
            cap: a["cap"].as_u64().unwrap_or(0) as usize,
            len0: a["len0"].as_u64().unwrap_or(0) as usize,
            mem0: bytes_of(&a["mem0"]),
        },
        "open" => Op::Open { ks: usizes_of(&a["ks"]), via: via_code(a["via"].as_str().unwrap_or("with")) },
        "pk" => Op::Pk { op: pk_code(a["op"].as_str().unwrap_or("")), v: a["v"].as_i64().unwrap_or(0), bs: bytes_of(&a["bs"]) },
        "reopen" => Op::Reopen,
        "rawdirty" => Op::RawDirty { n: a["n"].as_u64().unwrap_or(0) as usize },
        "user" => Op::User {
            who: who_code(a["who"].as_str().unwrap_or("")),
            bs: bytes_of(&a["bs"]),
            ks: usizes_of(&a["ks"]),
            ret: a["ret"].as_bool().unwrap_or(true),
        },
        "grow" => Op::Grow { cap: a["cap"].as_u64().unwrap_or(0) as usize, tail: bytes_of(&a["tail"]) },
        "write" => Op::Write { bs: bytes_of(&a["bs"]) },
        "extend" => Op::Extend { bs: bytes_of(&a["bs"]), it: it_code(a["it"].as_str().unwrap_or("exact")) },
        "advance" => Op::Advance { bs: bytes_of(&a["bs"]) },
        "scribble" => Op::Scribble { bs: bytes_of(&a["bs"]) },
        "close" => Op::Close,
        "closeinit" => Op::CloseInit,
        "unwind" => Op::Unwind,
        "read" => Op::Read { bs: bytes_of(&a["bs"]), ks: usizes_of(&a["ks"]), rd: rd_of(&a["rd"]) },
        "readclose" => Op::ReadClose { bs: bytes_of(&a["bs"]), claim: a["claim"].as_u64().unwrap_or(0) as usize, rd: rd_of(&a["rd"]) },
        "overadvance" => Op::OverAdvance { n: a["n"].as_u64().unwrap_or(0) as usize },
        "touch" => Op::Touch { ks: usizes_of(&a["ks"]) },
        "final" => Op::Final,
        other => panic!("harness: unknown act {:?}", other),
    }
}

fn act_of(op: &Op) -> Value {
    match op {
        Op::Setup { kind, cap, len0, mem0 } => json!({"a":"setup","kind":kind,"cap":cap,"len0":len0,"mem0":mem0}),
        Op::Open { ks, via } => json!({"a":"open","ks":ks,"via":VIA_NAMES[*via as usize]}),
        Op::Pk { op, v, bs } => json!({"a":"pk","op":PK_NAMES[*op as usize],"v":v,"bs":bs}),
        Op::Reopen => json!({"a":"reopen"}),
        Op::RawDirty { n } => json!({"a":"rawdirty","n":n}),
        Op::User { who, bs, ks, ret } => json!({"a":"user","who":WHO_NAMES[*who as usize],"bs":bs,"ks":ks,"ret":ret}),
        Op::Grow { cap, tail } => json!({"a":"grow","cap":cap,"tail":tail}),
        Op::Write { bs } => json!({"a":"write","bs":bs}),
        Op::Extend { bs, it } => json!({"a":"extend","bs":bs,"it":IT_NAMES[*it as usize]}),
        Op::Advance { bs } => json!({"a":"advance","bs":bs}),
        Op::Scribble { bs } => json!({"a":"scribble","bs":bs}),
        Op::Close => json!({"a":"close"}),
        Op::CloseInit => json!({"a":"closeinit"}),
        Op::Unwind => json!({"a":"unwind"}),
        Op::Read { bs, ks, rd } => json!({"a":"read","bs":bs,"ks":ks,"rd":rd_json(rd)}),
        Op::ReadClose { bs, claim, rd } => json!({"a":"readclose","bs":bs,"claim":claim,"rd":rd_json(rd)}),
        Op::OverAdvance { n } => json!({"a":"overadvance","n":n}),
        Op::Touch { ks } => json!({"a":"touch","ks":ks}),
        Op::Final => json!({"a":"final"}),
    }
}

// ------------------------------------------------------------------ op sources

struct RandCfg {
    maxcap: usize,
    ops: usize,
    maxdepth: usize,
    /// readers over real files
    files: bool,
    /// Connection::feed on owners with at least 1400 bytes of spare capacity
    feed: bool,
}

enum Source {
    Plan(Vec<Op>, usize),
    Random { rng: StdRng, cfg: RandCfg, left: usize, started: bool, kind: String },
}

const ARRAY_CAPS: &[usize] = &[0, 1, 2, 3, 4, 5, 6, 7, 8, 16, 32, 64, 128, 256, 512, 1024, 2048, 4096, 8192, 16384];

fn rand_len(rng: &mut StdRng, rem: usize, over: bool) -> usize {
    // lengths clustered around the interesting values: 0, small, around `rem`
    match rng.gen_range(0..10) {
        0 => 0,
        1 | 2 => rng.gen_range(0..=rem.min(4)),
        3 | 4 => rem.saturating_sub(rng.gen_range(0..3)),
        5 if over => rem + rng.gen_range(1..4),
        6 if over => rem + 1,
        _ => rng.gen_range(0..=rem),
    }
}
fn rand_bytes(rng: &mut StdRng, n: usize) -> Vec<u8> {
    (0..n).map(|_| rng.gen()).collect()
}
fn rand_nonzero(rng: &mut StdRng, n: usize) -> Vec<u8> {
    (0..n).map(|_| rng.gen_range(1..=255u8)).collect()
}
fn rand_chain(rng: &mut StdRng, spare: usize) -> Vec<usize> {
    let n = match rng.gen_range(0..10) {
        0..=4 => 0,
        5..=8 => 1,
        _ => 2,
    };
    (0..n)
        .map(|_| match rng.gen_range(0..6) {
            0 => 0,
            1 => spare,
            2 => spare + 1,
            3 => spare + rng.gen_range(1..100),
            _ => rng.gen_range(0..=spare),
        })
        .collect()
}
fn rand_via(rng: &mut StdRng) -> u8 {
    match rng.gen_range(0..10) {
        0..=5 => 0,
        6 | 7 => 1,
        _ => 2,
    }
}
/// a reader and the bytes it holds; `files`: real files allowed (slow)
fn rand_reader(rng: &mut StdRng, rem: usize, files: bool) -> (Rd, Vec<u8>) {
    let n = rand_len(rng, rem, true);
    let k = match rng.gen_range(0..16) {
        0..=4 => 0u8,
        x => ((x - 4) as u8).min(10),
    };
    let name = RD_NAMES[k as usize];
    if name == "file" && !files {
        return (Rd::default(), rand_bytes(rng, n));
    }
    let j = match name {
        "repeat" => rng.gen_range(0..256),
        "bufreader" => rng.gen_range(0..=rem + 2).min(64),
        "take" | "short" | "err" => rand_len(rng, n.min(rem), true),
        _ => 0,
    };
    let bs = match name {
        "empty" | "repeat" => Vec::new(),
        "chain" if rng.gen_range(0..3) == 0 => Vec::new(),
        _ => rand_bytes(rng, n),
    };
    let bs2 = if name == "chain" { let m = rand_len(rng, rem, true); rand_bytes(rng, m) } else { Vec::new() };
    (Rd { k, j, bs2 }, bs)
}
/// a call site inside libtw2 and the bytes it is to write
fn rand_user(rng: &mut StdRng, rem: usize) -> (u8, Vec<u8>) {
    let who = rng.gen_range(0..3u8);
    let n = rand_len(rng, rem, true).min(4000);
    let bs = match WHO_NAMES[who as usize] {
        "strbytes" => {
            let mut s = rand_nonzero(rng, n.saturating_sub(1));
            s.push(0);
            s
        }
        // bytes that compress well and bytes that do not
        _ if rng.gen_range(0..2) == 0 => (0..n).map(|_| [0u8, 0, 0, 1, 255][rng.gen_range(0..5)]).collect(),
        _ => rand_bytes(rng, n),
    };
    (who, bs)
}
fn rand_pk(rng: &mut StdRng, rem: usize) -> Op {
    let op = rng.gen_range(0..5u8);
    match PK_NAMES[op as usize] {
        "int" => {
            let v: i64 = match rng.gen_range(0..6) {
                0 => rng.gen_range(-64..64),
                1 => [63, 64, -64, -65, 8191, 8192, i32::MAX as i64, i32::MIN as i64][rng.gen_range(0..8)],
                2 => rng.gen_range(-(1i64 << 20)..(1i64 << 20)),
                _ => rng.gen::<i32>() as i64,
            };
            Op::Pk { op, v, bs: Vec::new() }
        }
        "string" => {
            let n = rand_len(rng, rem, true);
            let mut s = rand_nonzero(rng, n.saturating_sub(1));
            s.push(0);
            Op::Pk { op, v: 0, bs: s }
        }
        "data" => {
            let n = rand_len(rng, rem, true);
            Op::Pk { op, v: n as i64, bs: rand_bytes(rng, n) }
        }
        _ => {
            let n = rand_len(rng, rem, true);
            Op::Pk { op, v: 0, bs: rand_bytes(rng, n) }
        }
    }
}

impl Source {
    /// Next operation. `view`: None at top level, Some((remaining, depth, it is a Packer, made by hand)) inside a view.
    fn next(&mut self, view: Option<(usize, usize, bool, bool)>, owner_spare: usize) -> Option<Op> {
        match self {
            Source::Plan(ops, i) => {
                let r = ops.get(*i).cloned();
                *i += 1;
                r
            }
            Source::Random { rng, cfg, left, started, kind } => {
                if !*started {
                    *started = true;
                    *kind = ["vec", "arrayvec", "slice", "sliceref", "raw"][rng.gen_range(0..5)].to_string();
                    let cap = if kind == "arrayvec" {
                        let c: Vec<usize> = ARRAY_CAPS.iter().cloned().filter(|c| *c <= cfg.maxcap).collect();
                        c[rng.gen_range(0..c.len())]
                    } else if rng.gen_range(0..4) == 0 {
                        rng.gen_range(0..=cfg.maxcap.min(8))
                    } else {
                        rng.gen_range(0..=cfg.maxcap)
                    };
                    let len0 = match rng.gen_range(0..6) {
                        0 | 1 => 0,
                        2 => cap,
                        _ => rng.gen_range(0..=cap.min(40)),
                    };
                    let mem0 = rand_bytes(rng, cap);
                    return Some(Op::Setup { kind: kind.clone(), cap, len0, mem0 });
                }
                let raw = kind == "raw";
                match view {
                    None => {
                        if *left == 0 {
                            return Some(Op::Final);
                        }
                        *left -= 1;
                        let ks = if raw { Vec::new() } else { rand_chain(rng, owner_spare) };
                        match rng.gen_range(0..24) {
                            0 | 1 if !raw => Some(Op::Touch { ks }),
                            0 | 1 if owner_spare > 0 => Some(Op::RawDirty { n: rng.gen_range(1..=owner_spare) }),
                            2..=5 => {
                                let (rd, bs) = rand_reader(rng, owner_spare, cfg.files);
                                Some(Op::Read { bs, ks, rd })
                            }
                            6..=8 if !raw => {
                                if cfg.feed && owner_spare >= 1400 && rng.gen_range(0..2) == 0 {
                                    // a packet whose payload fits, an uncompressed one, or one whose payload overflows the buffer
                                    let bs: Vec<u8> = match rng.gen_range(0..6) {
                                        0 => Vec::new(),
                                        1 => vec![0u8; owner_spare + rng.gen_range(0..40)],
                                        _ => { let n = rng.gen_range(1..=1390); if rng.gen_range(0..2) == 0 { rand_bytes(rng, n.min(600)) } else { (0..n).map(|_| [0u8, 0, 0, 1, 255][rng.gen_range(0..5)]).collect() } }
                                    };
                                    let ks = if rng.gen_range(0..3) == 0 { vec![rng.gen_range(1400..=owner_spare)] } else { Vec::new() };
                                    Some(Op::User { who: FEED, bs, ks, ret: false })
                                } else {
                                    let (who, bs) = rand_user(rng, owner_spare);
                                    Some(Op::User { who, bs, ks, ret: true })
                                }
                            }
                            9 if kind == "vec" => {
                                let add = rng.gen_range(1..=16usize);
                                // capacity now = length + spare
                                Some(Op::Grow { cap: usize::MAX, tail: rand_bytes(rng, owner_spare + add) })
                            }
                            _ => Some(Op::Open { ks, via: if raw { 0 } else { rand_via(rng) } }),
                        }
                    }
                    Some((rem, depth, packer, manual)) => {
                        if *left == 0 {
                            return Some(Op::Close);
                        }
                        *left -= 1;
                        let _ = cfg.ops;
                        if packer {
                            return Some(match rng.gen_range(0..20) {
                                0..=8 => rand_pk(rng, rem),
                                9 | 10 if depth < cfg.maxdepth => Op::Open { ks: rand_chain(rng, rem), via: rand_via(rng) },
                                11 => { let (rd, bs) = rand_reader(rng, rem, cfg.files); Op::Read { bs, ks: rand_chain(rng, rem), rd } }
                                12 | 13 => { let (who, bs) = rand_user(rng, rem); Op::User { who, bs, ks: rand_chain(rng, rem), ret: true } }
                                14 => Op::Touch { ks: rand_chain(rng, rem) },
                                15 => Op::Unwind,
                                16 | 17 => Op::CloseInit,
                                18 => Op::Close,
                                _ => rand_pk(rng, rem),
                            });
                        }
                        Some(match rng.gen_range(0..24) {
                            0..=4 => Op::Write { bs: { let n = rand_len(rng, rem, true); rand_bytes(rng, n) } },
                            5..=7 => Op::Extend { bs: { let n = rand_len(rng, rem, true); rand_bytes(rng, n) }, it: rng.gen_range(0..4) },
                            8 | 9 => Op::Advance { bs: { let n = rand_len(rng, rem, false).min(rem); rand_bytes(rng, n) } },
                            10 => Op::Scribble { bs: { let n = rand_len(rng, rem, false).min(rem); rand_bytes(rng, n) } },
                            11..=13 if depth < cfg.maxdepth => Op::Open { ks: rand_chain(rng, rem), via: rand_via(rng) },
                            15 => { let (rd, mut bs) = rand_reader(rng, rem, cfg.files); if bs.is_empty() && rd.k == 0 { bs = rand_bytes(rng, 1); } Op::ReadClose { bs, claim: 0, rd } }
                            14 => { let (rd, bs) = rand_reader(rng, rem, cfg.files); Op::Read { bs, ks: rand_chain(rng, rem), rd } }
                            16 => Op::CloseInit,
                            17 => match rng.gen_range(0..4) {
                                0 => Op::Unwind,
                                1 => Op::OverAdvance { n: rem + 1 + rng.gen_range(0..3) },
                                2 => Op::ReadClose { bs: { let n = rng.gen_range(0..=rem.min(8)); rand_bytes(rng, n) }, claim: rem + 1 + rng.gen_range(0..3), rd: Rd::default() },
                                _ => Op::Touch { ks: rand_chain(rng, rem) },
                            },
                            18 => Op::Close,
                            19 | 20 => { let (who, bs) = rand_user(rng, rem); Op::User { who, bs, ks: rand_chain(rng, rem), ret: true } }
                            21 | 22 if manual => Op::Reopen,
                            _ => Op::Write { bs: { let n = rng.gen_range(0..=rem.min(16)); rand_bytes(rng, n) } },
                        })
                    }
                }
            }
        }
    }
}

// ------------------------------------------------------------------ interpreter

/// What a call let the caller observe (projection into the vocabulary of Buffer.tla).
#[derive(Default)]
struct Out {
    r: &'static str,
    rem: Option<usize>,
    data: Option<Vec<u8>>,
    olen: Option<usize>,
    own: Option<Vec<u8>>,
    mem: Option<Vec<u8>>,
    msg: Option<String>,
    loc: Option<String>,
}
impl Out {
    fn ok() -> Out {
        Out { r: "ok", ..Default::default() }
    }
    fn rem(mut self, n: usize) -> Out {
        self.rem = Some(n);
        self
    }
    fn data(mut self, d: Vec<u8>) -> Out {
        self.data = Some(d);
        self
    }
    fn to_json(&self) -> Value {
        let mut m = serde_json::Map::new();
        m.insert("r".to_string(), json!(self.r));
        if let Some(x) = self.rem { m.insert("rem".to_string(), json!(x)); }
        if let Some(x) = &self.data { m.insert("data".to_string(), json!(x)); }
        if let Some(x) = self.olen { m.insert("olen".to_string(), json!(x)); }
        if let Some(x) = &self.own { m.insert("own".to_string(), json!(x)); }
        if let Some(x) = &self.mem { m.insert("mem".to_string(), json!(x)); }
        if let Some(x) = &self.msg { m.insert("msg".to_string(), json!(x)); }
        if let Some(x) = &self.loc { m.insert("loc".to_string(), json!(x)); }
        Value::Object(m)
    }
}

struct Cx {
    src: Source,
    /// lite mode (used under Miri): no JSON is built; observations are folded into `sum`
    lite: bool,
    sum: u64,
    /// a refusal (assertion) of the call in progress is the specified outcome; it unwinds like `unwind`
    refusal_expected: bool,
    events: Vec<(Value, Value)>,
    current: Option<Value>, // act whose library call is in progress (for panics)
    unwinding: Option<usize>, // index of the event of an `unwind` op in progress
}

impl Cx {
    fn new(src: Source, lite: bool) -> Cx {
        Cx { src, lite, sum: 0xcbf29ce484222325, refusal_expected: false, events: Vec::new(), current: None, unwinding: None }
    }
    fn fold_u(&mut self, x: u64) {
        self.sum = (self.sum ^ x).wrapping_mul(0x100000001b3);
    }
    fn fold_bytes(&mut self, b: &[u8]) {
        self.fold_u(b.len() as u64);
        for x in b {
            self.fold_u(*x as u64);
        }
    }
    fn act(&self, op: &Op) -> Value {
        if self.lite { Value::Null } else { act_of(op) }
    }
    fn push(&mut self, act: Value, o: Out) -> usize {
        if self.lite {
            self.fold_u(o.r.len() as u64);
            if let Some(x) = o.rem { self.fold_u(x as u64); }
            if let Some(x) = &o.data { self.fold_bytes(x); }
            if let Some(x) = o.olen { self.fold_u(x as u64); }
            if let Some(x) = &o.own { self.fold_bytes(x); }
            if let Some(x) = &o.mem { self.fold_bytes(x); }
            self.events.push((Value::Null, Value::Null));
        } else {
            self.events.push((act, o.to_json()));
        }
        self.events.len() - 1
    }
    fn patch_r(&mut self, i: usize, r: &str) {
        if self.lite { self.fold_u(r.len() as u64); } else { self.events[i].1["r"] = json!(r); }
    }
    fn patch_data(&mut self, i: usize, d: Vec<u8>) {
        if self.lite { self.fold_bytes(&d); } else { self.events[i].1["data"] = json!(d); }
    }
    fn patch_rem(&mut self, i: usize, rem: usize) {
        if self.lite { self.fold_u(rem as u64); } else { self.events[i].1["rem"] = json!(rem); }
    }
    fn patch_owner(&mut self, i: usize, olen: usize, own: Vec<u8>) {
        if self.lite {
            self.fold_u(olen as u64);
            self.fold_bytes(&own);
        } else {
            self.events[i].1["olen"] = json!(olen);
            self.events[i].1["own"] = json!(own);
        }
    }
}

struct UnwindMarker;

#[derive(Clone, PartialEq, Debug)]
enum Exit {
    Closed(usize), // index of the close event, to be completed by the parent
    EndOfPlan,
    Reopen(Value), // the BufferRef was dropped; the intermediate is asked for another one
}

macro_rules! with_chain {
    ($buf:expr, $ks:expr, $f:expr) => {{
        let ks: &[usize] = $ks;
        match ks.len() {
            0 => with_buffer($buf, $f),
            1 => with_buffer($buf.cap_at(ks[0]), $f),
            2 => with_buffer($buf.cap_at(ks[0]).cap_at(ks[1]), $f),
            _ => panic!("harness: cap_at chain too long"),
        }
    }};
}
macro_rules! packer_chain {
    ($buf:expr, $ks:expr, $f:expr) => {{
        let ks: &[usize] = $ks;
        match ks.len() {
            0 => with_packer($buf, $f),
            1 => with_packer($buf.cap_at(ks[0]), $f),
            2 => with_packer($buf.cap_at(ks[0]).cap_at(ks[1]), $f),
            _ => panic!("harness: cap_at chain too long"),
        }
    }};
}
/// to_to_buffer_ref() by hand: the intermediate stays in the hands of the harness
macro_rules! manual_chain {
    ($buf:expr, $ks:expr, $cx:expr, $act:expr, $depth:expr) => {{
        let ks: &[usize] = $ks;
        match ks.len() {
            0 => run_manual($buf.to_to_buffer_ref(), $cx, $act, $depth),
            1 => run_manual($buf.cap_at(ks[0]).to_to_buffer_ref(), $cx, $act, $depth),
            2 => run_manual($buf.cap_at(ks[0]).cap_at(ks[1]).to_to_buffer_ref(), $cx, $act, $depth),
            _ => panic!("harness: cap_at chain too long"),
        }
    }};
}
macro_rules! open_via {
    ($buf:expr, $ks:expr, $via:expr, $cx:expr, $act:expr, $depth:expr) => {{
        match $via {
            0 => with_chain!($buf, $ks, |c| run_view(H::B(c), $cx, $act, $depth, false)),
            1 => manual_chain!($buf, $ks, $cx, $act, $depth),
            _ => packer_chain!($buf, $ks, |p| run_view(H::P(p), $cx, $act, $depth, false)),
        }
    }};
}
macro_rules! touch_chain {
    ($buf:expr, $ks:expr) => {{
        let ks: &[usize] = $ks;
        match ks.len() {
            0 => drop($buf.to_to_buffer_ref()),
            1 => drop($buf.cap_at(ks[0]).to_to_buffer_ref()),
            2 => drop($buf.cap_at(ks[0]).cap_at(ks[1]).to_to_buffer_ref()),
            _ => panic!("harness: cap_at chain too long"),
        }
    }};
}
macro_rules! read_chain {
    ($rd:expr, $buf:expr, $ks:expr) => {{
        let ks: &[usize] = $ks;
        match ks.len() {
            0 => $rd.read_buffer($buf),
            1 => $rd.read_buffer($buf.cap_at(ks[0])),
            2 => $rd.read_buffer($buf.cap_at(ks[0]).cap_at(ks[1])),
            _ => panic!("harness: cap_at chain too long"),
        }
    }};
}
macro_rules! user_chain {
    ($who:expr, $input:expr, $buf:expr, $ks:expr) => {{
        let ks: &[usize] = $ks;
        match ks.len() {
            0 => user_call($who, $input, $buf),
            1 => user_call($who, $input, $buf.cap_at(ks[0])),
            2 => user_call($who, $input, $buf.cap_at(ks[0]).cap_at(ks[1])),
            _ => panic!("harness: cap_at chain too long"),
        }
    }};
}
const FEED: u8 = 3;
/// on owners: `feed` as well
macro_rules! owner_user_chain {
    ($who:expr, $input:expr, $buf:expr, $ks:expr) => {{
        let ks: &[usize] = $ks;
        if $who == FEED {
            match ks.len() {
                0 => feed_call($input, $buf),
                1 => feed_call($input, $buf.cap_at(ks[0])),
                _ => panic!("harness: cap_at chain too long"),
            }
        } else {
            user_chain!($who, $input, $buf, ks)
        }
    }};
}

// ------------------------------------------------------------------ readers

/// A reader that stores what fits but reports `claim` bytes.
struct OverReader<'a> {
    data: &'a [u8],
    claim: usize,
}
impl<'a> std::io::Read for OverReader<'a> {
    fn read(&mut self, buf: &mut [u8]) -> std::io::Result<usize> {
        let n = self.data.len().min(buf.len());
        buf[..n].copy_from_slice(&self.data[..n]);
        Ok(self.claim)
    }
}
/// A reader that hands out at most `j` bytes per call (a short read).
struct ShortReader<'a> {
    data: &'a [u8],
    j: usize,
}
impl<'a> std::io::Read for ShortReader<'a> {
    fn read(&mut self, buf: &mut [u8]) -> std::io::Result<usize> {
        let n = self.data.len().min(buf.len()).min(self.j);
        buf[..n].copy_from_slice(&self.data[..n]);
        self.data = &self.data[n..];
        Ok(n)
    }
}
unsafe impl<'a> ReadBufferMarker for ShortReader<'a> {}
/// A reader that stores up to `j` bytes and then fails.
struct ErrReader<'a> {
    data: &'a [u8],
    j: usize,
}
impl<'a> std::io::Read for ErrReader<'a> {
    fn read(&mut self, buf: &mut [u8]) -> std::io::Result<usize> {
        let n = self.data.len().min(buf.len()).min(self.j);
        buf[..n].copy_from_slice(&self.data[..n]);
        Err(std::io::Error::new(std::io::ErrorKind::Other, "reader fails midway"))
    }
}
unsafe impl<'a> ReadBufferMarker for ErrReader<'a> {}
/// Any of the readers behind one type: a user-written `ReadBufferRef` that forwards to the real
/// implementation (the blanket impl for `ReadBufferMarker` types, i.e. `read_buffer_ref`).
struct DynRd<'a>(&'a mut dyn ReadBufferRef);
impl<'a> std::io::Read for DynRd<'a> {
    fn read(&mut self, buf: &mut [u8]) -> std::io::Result<usize> {
        self.0.read(buf)
    }
}
impl<'a> ReadBufferRef for DynRd<'a> {
    fn read_buffer_ref<'d, 's>(&mut self, buf: BufferRef<'d, 's>) -> std::io::Result<&'d [u8]> {
        self.0.read_buffer_ref(buf)
    }
}
static FILE_NO: AtomicUsize = AtomicUsize::new(0);
/// Builds the reader `rd` over the bytes `bs` and hands it to `f`.
fn with_reader<T>(rd: &Rd, bs: &[u8], f: &mut dyn FnMut(DynRd) -> T) -> T {
    use std::io::Read;
    match RD_NAMES[rd.k as usize] {
        "slice" => {
            let mut r: &[u8] = bs;
            f(DynRd(&mut r))
        }
        "mutref" => {
            let mut inner: &[u8] = bs;
            let mut r = &mut inner;
            f(DynRd(&mut r))
        }
        "boxed" => {
            let mut r: Box<&[u8]> = Box::new(bs);
            f(DynRd(&mut r))
        }
        "bufreader" => {
            let mut r = std::io::BufReader::with_capacity(rd.j, bs);
            f(DynRd(&mut r))
        }
        "file" => {
            let path = std::env::temp_dir().join(format!("vh-buffer-{}-{}.bin", std::process::id(), FILE_NO.fetch_add(1, Ordering::Relaxed)));
            std::fs::write(&path, bs).expect("harness: temp file");
            let mut r = std::fs::File::open(&path).expect("harness: temp file");
            let t = f(DynRd(&mut r));
            let _ = std::fs::remove_file(&path);
            t
        }
        "empty" => {
            let mut r = std::io::empty();
            f(DynRd(&mut r))
        }
        "repeat" => {
            let mut r = std::io::repeat(rd.j as u8);
            f(DynRd(&mut r))
        }
        "take" => {
            let mut r = bs.take(rd.j as u64);
            f(DynRd(&mut r))
        }
        "short" => {
            let mut r = ShortReader { data: bs, j: rd.j };
            f(DynRd(&mut r))
        }
        "chain" => {
            let mut r = bs.chain(&rd.bs2[..]);
            f(DynRd(&mut r))
        }
        "err" => {
            let mut r = ErrReader { data: bs, j: rd.j };
            f(DynRd(&mut r))
        }
        other => panic!("harness: reader {}", other),
    }
}
fn read_result(r: std::io::Result<&[u8]>) -> Result<Vec<u8>, ()> {
    match r {
        Ok(s) => Ok(s.to_vec()),
        Err(_) => Err(()),
    }
}
fn read_out(r: Result<Vec<u8>, ()>) -> Out {
    match r {
        Ok(d) => Out::ok().data(d),
        Err(()) => Out { r: "ioerr", ..Default::default() },
    }
}

// ------------------------------------------------------------------ call sites inside libtw2

struct NoCb;
impl libtw2_net::connection::Callback for NoCb {
    type Error = ();
    fn secure_random(&mut self, buffer: &mut [u8]) {
        for b in buffer {
            *b = 7;
        }
    }
    fn send(&mut self, _: &[u8]) -> Result<(), ()> {
        Ok(())
    }
    fn time(&mut self) -> libtw2_net::Timestamp {
        libtw2_net::Timestamp::from_secs_since_epoch(0)
    }
}
struct SeeCompression(bool);
impl libtw2_warn::Warn<libtw2_net::connection::Warning> for SeeCompression {
    fn warn(&mut self, w: libtw2_net::connection::Warning) {
        if let libtw2_net::connection::Warning::Read(libtw2_net::protocol::PacketReadError::Compression) = w {
            self.0 = true;
        }
    }
}

/// The call `who` with its input on `target`: what it reports and the slice it returns.
fn user_call<'d, B: Buffer<'d>>(who: u8, input: &[u8], target: B) -> (&'static str, Option<Vec<u8>>) {
    match WHO_NAMES[who as usize] {
        "huffd" => match libtw2_huffman::decompress_into(input, target) {
            Ok(s) => ("ok", Some(s.to_vec())),
            Err(libtw2_huffman::DecompressionError::Capacity(_)) => ("cap", Some(Vec::new())),
            Err(_) => ("invalid", Some(Vec::new())),
        },
        "huffc" => match libtw2_huffman::compress_into(input, target) {
            Ok(s) => ("ok", Some(s.to_vec())),
            Err(_) => ("cap", Some(Vec::new())),
        },
        "strbytes" => match libtw2_packer::string_to_bytes(target, input) {
            Ok(s) => ("ok", Some(s.to_vec())),
            Err(_) => ("cap", Some(Vec::new())),
        },
        other => panic!("harness: call site {} on this target", other),
    }
}
/// `Connection::feed(.., packet, target)`: packet and buffer share a lifetime, so only on owners
fn feed_call<'d, B: Buffer<'d>>(input: &'d [u8], target: B) -> (&'static str, Option<Vec<u8>>) {
    let mut conn = libtw2_net::Connection::new();
    let mut warn = SeeCompression(false);
    let _ = conn.feed(&mut NoCb, &mut warn, input, target);
    (if warn.0 { "cap" } else { "ok" }, None)
}
/// The input of the call `who` that makes it write `payload`, and what the same call writes into an
/// ample buffer (the bytes the call writes are the codec's business, not the buffer's).
fn user_reference(who: u8, payload: &[u8]) -> (Vec<u8>, Vec<u8>) {
    match WHO_NAMES[who as usize] {
        "huffd" => {
            let input = libtw2_huffman::compress(payload);
            let mut ample: Vec<u8> = Vec::with_capacity(input.len() * 8 + 64);
            let _ = libtw2_huffman::decompress_into(&input, &mut ample);
            (input, ample)
        }
        "huffc" => {
            let mut ample: Vec<u8> = Vec::with_capacity(payload.len() * 4 + 64);
            let _ = libtw2_huffman::compress_into(payload, &mut ample);
            (payload.to_vec(), ample)
        }
        "strbytes" => {
            let s: Vec<u8> = payload[..payload.len().saturating_sub(1)].iter().cloned().filter(|b| *b != 0).collect();
            let mut ample: Vec<u8> = Vec::with_capacity(s.len() + 64);
            let _ = libtw2_packer::string_to_bytes(&mut ample, &s);
            (s, ample)
        }
        "feed" => {
            // payload = what the packet carries (empty: a packet that needs no decompression)
            let mut packet: Vec<u8>;
            if payload.is_empty() {
                packet = vec![0x00, 0x00, 0x00];
            } else {
                packet = vec![libtw2_net::protocol::PACKETFLAG_COMPRESSION << 4, 0x00, 0x00];
                packet.extend_from_slice(&libtw2_huffman::compress(payload));
            }
            let mut ample: Vec<u8> = Vec::with_capacity(1 << 16);
            let _ = libtw2_net::protocol::Packet::decompress_if_needed(&packet, &mut ample);
            (packet, ample)
        }
        other => panic!("harness: call site {}", other),
    }
}

/// One Packer call; `bs` = the bytes TLC / the driver expects it to write.
fn pk_call(p: &mut Packer, op: u8, v: i64, bs: &[u8]) -> bool {
    match PK_NAMES[op as usize] {
        "raw" => p.write_raw(bs).is_ok(),
        "rest" => p.write_rest(bs).is_ok(),
        "string" => p.write_string(&bs[..bs.len().saturating_sub(1)]).is_ok(),
        "int" => p.write_int(v as i32).is_ok(),
        "data" => p.write_data(&bs[bs.len() - (v as usize).min(bs.len())..]).is_ok(),
        other => panic!("harness: packer op {}", other),
    }
}
fn pk_reference(op: u8, v: i64, bs: &[u8]) -> Vec<u8> {
    let mut ample: Vec<u8> = Vec::with_capacity(bs.len() + 64);
    with_packer(&mut ample, |mut p| {
        pk_call(&mut p, op, v, bs);
    });
    ample
}

// ------------------------------------------------------------------ views

/// What the closure got: a BufferRef (with_buffer, BufferRef::new, to_buffer_ref) or a Packer (with_packer).
enum H<'d, 's> {
    B(BufferRef<'d, 's>),
    P(Packer<'d, 's>),
}
impl<'d, 's> H<'d, 's> {
    fn remaining(&mut self) -> usize {
        match self {
            H::B(b) => b.remaining(),
            // a Packer does not tell: a nested view of it does
            H::P(p) => with_buffer(p, |c| c.remaining()),
        }
    }
    fn buf(&mut self, what: &Value) -> &mut BufferRef<'d, 's> {
        match self {
            H::B(b) => b,
            H::P(_) => panic!("harness: {} on a Packer", what),
        }
    }
}
/// `$t` is bound to `&mut BufferRef` or `&mut Packer` (both are `Buffer`s)
macro_rules! target {
    ($h:expr, $t:ident => $e:expr) => {
        match &mut $h {
            H::B($t) => $e,
            H::P($t) => $e,
        }
    };
}

struct OnceRef<'a, I>(&'a mut I);
impl<'a, I> OnceRef<'a, I> {
    fn go<'d>(self) -> BufferRef<'d, 'a>
    where
        I: ToBufferRef<'d>,
    {
        self.0.to_buffer_ref()
    }
}
/// A view made by hand: `inter.to_buffer_ref()` as often as the plan asks for it.
fn run_manual<'d, I: ToBufferRef<'d>>(mut inter: I, cx: &mut Cx, act: Value, depth: usize) -> Exit {
    let mut act = act;
    let mut first = true;
    loop {
        let r = {
            let once = OnceRef(&mut inter);
            catch_unwind(AssertUnwindSafe(move || once.go()))
        };
        match r {
            Ok(b) => match run_view(H::B(b), cx, act, depth, true) {
                Exit::Reopen(a) => {
                    act = a;
                    first = false;
                    cx.current = Some(act.clone());
                }
                e => return e,
            },
            Err(p) => {
                if first {
                    resume_unwind(p); // not a second call: a panic of the library
                }
                // refused: the intermediate is dropped (by the unwinding, here: by returning) and writes its count back
                cx.current = None;
                let i = cx.push(act, Out { r: "refused", ..Default::default() }.data(Vec::new()));
                return Exit::Closed(i);
            }
        }
    }
}

fn run_view<'d, 's>(mut h: H<'d, 's>, cx: &mut Cx, open_act: Value, depth: usize, manual: bool) -> Exit {
    cx.current = None;
    let r0 = h.remaining();
    cx.push(open_act, Out::ok().rem(r0));
    loop {
        let rem_now = h.remaining();
        let op = match cx.src.next(Some((rem_now, depth, matches!(h, H::P(_)), manual)), 0) {
            Some(op) => op,
            None => return Exit::EndOfPlan,
        };
        let act = cx.act(&op);
        cx.current = Some(act.clone());
        match op {
            Op::Write { bs } => {
                let r = h.buf(&act).write(&bs);
                cx.push(act, Out { r: if r.is_ok() { "ok" } else { "cap" }, ..Default::default() }.rem(h.remaining()));
            }
            Op::Extend { bs, it } => {
                let b = h.buf(&act);
                let r = match it {
                    0 => b.extend(bs.iter().cloned()),
                    1 => {
                        let mut i = 0;
                        b.extend(std::iter::from_fn(|| {
                            let x = bs.get(i).cloned();
                            i += 1;
                            x
                        }))
                    }
                    2 => b.extend(Hinted { inner: bs.iter(), claim: bs.len().saturating_sub(1) }),
                    _ => b.extend(Hinted { inner: bs.iter(), claim: bs.len() + 1 }),
                };
                cx.push(act, Out { r: if r.is_ok() { "ok" } else { "cap" }, ..Default::default() }.rem(h.remaining()));
            }
            Op::Pk { op, v, bs } => {
                // the bytes this call writes: what it writes into an ample buffer
                let reference = pk_reference(op, v, &bs);
                let act = if cx.lite { act } else { act_of(&Op::Pk { op, v, bs: reference.clone() }) };
                let ok = match &mut h {
                    H::P(p) => pk_call(p, op, v, &bs),
                    H::B(_) => panic!("harness: packer op on a BufferRef"),
                };
                cx.push(act, Out { r: if ok { "ok" } else { "cap" }, ..Default::default() }.rem(h.remaining()));
            }
            Op::Advance { bs } => {
                let b = h.buf(&act);
                unsafe {
                    b.uninitialized_mut()[..bs.len()].copy_from_slice(&bs);
                    b.advance(bs.len());
                }
                cx.push(act, Out::ok().rem(h.remaining()));
            }
            Op::Scribble { bs } => {
                let b = h.buf(&act);
                unsafe {
                    b.uninitialized_mut()[..bs.len()].copy_from_slice(&bs);
                }
                cx.push(act, Out::ok().rem(h.remaining()));
            }
            Op::Open { ks, via } => {
                let e = target!(h, t => open_via!(t, &ks, via, cx, act.clone(), depth + 1));
                match e {
                    Exit::Closed(i) => {
                        cx.patch_rem(i, h.remaining());
                    }
                    Exit::EndOfPlan => return Exit::EndOfPlan,
                    Exit::Reopen(_) => panic!("harness: reopen escaped"),
                }
            }
            Op::Read { bs, ks, rd } => {
                let r = with_reader(&rd, &bs, &mut |mut r| target!(h, t => read_result(read_chain!(r, t, &ks))));
                cx.push(act, read_out(r).rem(h.remaining()));
            }
            Op::User { who, bs, ks, ret } => {
                let (input, reference) = user_reference(who, &bs);
                let act = if cx.lite { act } else { act_of(&Op::User { who, bs: reference, ks: ks.clone(), ret }) };
                let (r, data) = target!(h, t => user_chain!(who, &input, t, &ks));
                let mut o = Out { r, ..Default::default() }.rem(h.remaining());
                if ret {
                    o.data = Some(data.unwrap_or_default());
                }
                cx.push(act, o);
            }
            Op::ReadClose { bs, claim, .. } if claim > 0 => {
                // a reader that reports more than what is left: read_buffer_ref must refuse (it asserts);
                // the refusal unwinds through every open view
                let b = match h {
                    H::B(b) => b,
                    H::P(_) => panic!("harness: readclose on a Packer"),
                };
                let i = cx.push(act, Out { r: "refused", ..Default::default() });
                cx.unwinding = Some(i);
                cx.refusal_expected = true;
                let mut rd = OverReader { data: &bs, claim };
                let s = match unsafe { libtw2_buffer::read_buffer_ref(&mut rd, b) } {
                    Ok(s) => s.to_vec(),
                    Err(e) => panic!("harness: read_buffer_ref io error {:?}", e),
                };
                // not refused: the view was consumed and is released as after an honest read
                cx.refusal_expected = false;
                cx.unwinding = None;
                cx.patch_r(i, "ok");
                cx.patch_data(i, s);
                cx.current = None;
                return Exit::Closed(i);
            }
            Op::ReadClose { bs, rd, .. } => {
                // the view itself (it may already hold bytes) goes to the reader and is consumed
                let b = match h {
                    H::B(b) => b,
                    H::P(_) => panic!("harness: readclose on a Packer"),
                };
                let mut slot = Some(b);
                let r = with_reader(&rd, &bs, &mut |mut r| read_result(r.read_buffer_ref(slot.take().expect("harness: reader used twice"))));
                let o = match r {
                    Ok(d) => Out::ok().data(d),
                    Err(()) => Out { r: "ioerr", ..Default::default() }.data(Vec::new()),
                };
                cx.push(act, o);
                cx.current = None;
                return Exit::Closed(cx.events.len() - 1);
            }
            Op::OverAdvance { n } => {
                // a count above what is left: advance must refuse (it asserts); the view is used further
                let b = h.buf(&act);
                let r = catch_unwind(AssertUnwindSafe(|| unsafe { b.advance(n) }));
                let res = if r.is_err() { "refused" } else { "ok" };
                cx.push(act, Out { r: res, ..Default::default() }.rem(h.remaining()));
            }
            Op::Touch { ks } => {
                target!(h, t => touch_chain!(t, &ks));
                cx.push(act, Out::ok().rem(h.remaining()));
            }
            Op::Reopen => {
                if !manual {
                    panic!("harness: reopen on a view that was not made by hand");
                }
                return Exit::Reopen(act);
            }
            Op::Close => {
                cx.push(act, Out::ok().data(Vec::new()));
                cx.current = None;
                return Exit::Closed(cx.events.len() - 1);
            }
            Op::CloseInit => {
                let s = match h {
                    H::B(b) => b.initialized().to_vec(),
                    H::P(p) => p.written().to_vec(),
                };
                cx.push(act, Out::ok().data(s));
                cx.current = None;
                return Exit::Closed(cx.events.len() - 1);
            }
            Op::Unwind => {
                cx.push(act, Out::ok());
                cx.unwinding = Some(cx.events.len() - 1);
                cx.current = None;
                resume_unwind(Box::new(UnwindMarker));
            }
            Op::Setup { .. } | Op::Final | Op::RawDirty { .. } | Op::Grow { .. } => panic!("harness: {:?} inside a view", act),
        }
        cx.current = None;
    }
}

trait Owner {
    fn touch(&mut self, ks: &[usize]);
    fn open(&mut self, ks: &[usize], via: u8, cx: &mut Cx, act: Value) -> Exit;
    fn read(&mut self, rd: &Rd, bs: &[u8], ks: &[usize]) -> Result<Vec<u8>, ()>;
    fn user(&mut self, who: u8, input: &[u8], ks: &[usize]) -> (&'static str, Option<Vec<u8>>);
    fn grow(&mut self, _cap: usize, _tail: &[u8]) {
        panic!("harness: grow on a store that is not a Vec");
    }
    /// BufferRef::new with a non-zero count; None: refused
    fn rawdirty(&mut self, _n: usize, _cx: &mut Cx, _act: Value) -> Option<Exit> {
        panic!("harness: rawdirty on a store that is not raw");
    }
    fn spare(&self) -> usize;
    fn olen(&self) -> usize;
    fn own(&self) -> Vec<u8>;
    fn mem(&self) -> Vec<u8>;
}

struct VecOwner {
    v: Vec<u8>,
    cap: usize,
}
impl Owner for VecOwner {
    fn touch(&mut self, ks: &[usize]) {
        touch_chain!((&mut self.v), ks);
    }
    fn open(&mut self, ks: &[usize], via: u8, cx: &mut Cx, act: Value) -> Exit {
        open_via!((&mut self.v), ks, via, cx, act, 1)
    }
    fn read(&mut self, rd: &Rd, bs: &[u8], ks: &[usize]) -> Result<Vec<u8>, ()> {
        with_reader(rd, bs, &mut |mut r| read_result(read_chain!(r, (&mut self.v), ks)))
    }
    fn user(&mut self, who: u8, input: &[u8], ks: &[usize]) -> (&'static str, Option<Vec<u8>>) {
        owner_user_chain!(who, input, (&mut self.v), ks)
    }
    fn grow(&mut self, cap: usize, tail: &[u8]) {
        let len = self.v.len();
        self.v.reserve_exact(cap - len);
        assert!(self.v.capacity() == cap, "harness: Vec capacity {} != {}", self.v.capacity(), cap);
        assert!(tail.len() == cap - len, "harness: bad grow");
        // the spare memory is uninitialized for the harness as well: fill it with what the specification says
        unsafe {
            let p = self.v.as_mut_ptr().add(len);
            for (i, x) in tail.iter().enumerate() {
                p.add(i).write(*x);
            }
        }
        self.cap = cap;
    }
    fn spare(&self) -> usize {
        self.cap - self.v.len()
    }
    fn olen(&self) -> usize {
        self.v.len()
    }
    fn own(&self) -> Vec<u8> {
        self.v.clone()
    }
    fn mem(&self) -> Vec<u8> {
        // every byte of the allocation was initialized at set-up
        unsafe { std::slice::from_raw_parts(self.v.as_ptr(), self.cap).to_vec() }
    }
}

struct ArrOwner<A: arrayvec::Array<Item = u8>> {
    v: ArrayVec<A>,
}
impl<A: arrayvec::Array<Item = u8>> Owner for ArrOwner<A> {
    fn touch(&mut self, ks: &[usize]) {
        touch_chain!((&mut self.v), ks);
    }
    fn open(&mut self, ks: &[usize], via: u8, cx: &mut Cx, act: Value) -> Exit {
        open_via!((&mut self.v), ks, via, cx, act, 1)
    }
    fn read(&mut self, rd: &Rd, bs: &[u8], ks: &[usize]) -> Result<Vec<u8>, ()> {
        with_reader(rd, bs, &mut |mut r| read_result(read_chain!(r, (&mut self.v), ks)))
    }
    fn user(&mut self, who: u8, input: &[u8], ks: &[usize]) -> (&'static str, Option<Vec<u8>>) {
        owner_user_chain!(who, input, (&mut self.v), ks)
    }
    fn spare(&self) -> usize {
        self.v.capacity() - self.v.len()
    }
    fn olen(&self) -> usize {
        self.v.len()
    }
    fn own(&self) -> Vec<u8> {
        self.v.to_vec()
    }
    fn mem(&self) -> Vec<u8> {
        unsafe { std::slice::from_raw_parts(self.v.as_ptr(), self.v.capacity()).to_vec() }
    }
}

/// `&mut [u8]`: the slice `arr[len0..]` is handed out anew for every view.
struct SliceOwner {
    arr: Vec<u8>,
    len0: usize,
}
impl Owner for SliceOwner {
    fn touch(&mut self, ks: &[usize]) {
        let s: &mut [u8] = &mut self.arr[self.len0..];
        touch_chain!(s, ks);
    }
    fn open(&mut self, ks: &[usize], via: u8, cx: &mut Cx, act: Value) -> Exit {
        let s: &mut [u8] = &mut self.arr[self.len0..];
        open_via!(s, ks, via, cx, act, 1)
    }
    fn read(&mut self, rd: &Rd, bs: &[u8], ks: &[usize]) -> Result<Vec<u8>, ()> {
        let len0 = self.len0;
        with_reader(rd, bs, &mut |mut r| {
            let s: &mut [u8] = &mut self.arr[len0..];
            read_result(read_chain!(r, s, ks))
        })
    }
    fn user(&mut self, who: u8, input: &[u8], ks: &[usize]) -> (&'static str, Option<Vec<u8>>) {
        let s: &mut [u8] = &mut self.arr[self.len0..];
        owner_user_chain!(who, input, s, ks)
    }
    fn spare(&self) -> usize {
        self.arr.len() - self.len0
    }
    fn olen(&self) -> usize {
        self.arr.len() - self.len0
    }
    fn own(&self) -> Vec<u8> {
        Vec::new()
    }
    fn mem(&self) -> Vec<u8> {
        self.arr.clone()
    }
}

/// The caller's own slice and counter, turned into a view with `BufferRef::new`.
struct RawOwner {
    arr: Vec<u8>,
    len0: usize,
    count: usize,
}
impl Owner for RawOwner {
    fn touch(&mut self, _: &[usize]) {
        panic!("harness: no intermediate on the raw store");
    }
    fn open(&mut self, ks: &[usize], via: u8, cx: &mut Cx, act: Value) -> Exit {
        assert!(ks.is_empty() && via == 0, "harness: raw store: BufferRef::new only");
        self.count = 0;
        let b = BufferRef::new(&mut self.arr[self.len0..], &mut self.count);
        run_view(H::B(b), cx, act, 1, false)
    }
    fn read(&mut self, rd: &Rd, bs: &[u8], ks: &[usize]) -> Result<Vec<u8>, ()> {
        assert!(ks.is_empty(), "harness: raw store: no cap_at");
        let len0 = self.len0;
        self.count = 0;
        let (arr, count) = (&mut self.arr, &mut self.count);
        with_reader(rd, bs, &mut |mut r| read_result(r.read_buffer_ref(BufferRef::new(&mut arr[len0..], &mut *count))))
    }
    fn user(&mut self, _: u8, _: &[u8], _: &[usize]) -> (&'static str, Option<Vec<u8>>) {
        panic!("harness: the raw store is not a Buffer");
    }
    fn rawdirty(&mut self, n: usize, cx: &mut Cx, act: Value) -> Option<Exit> {
        let before = self.count;
        self.count = n;
        let r = {
            // raw pointers: the view lives on when the call is not refused
            let ap: *mut [u8] = &mut self.arr[self.len0..];
            let cp: *mut usize = &mut self.count;
            catch_unwind(AssertUnwindSafe(move || unsafe { BufferRef::new(&mut *ap, &mut *cp) }))
        };
        match r {
            Ok(b) => Some(run_view(H::B(b), cx, act, 1, false)),
            Err(_) => {
                self.count = before;
                None
            }
        }
    }
    fn spare(&self) -> usize {
        self.arr.len() - self.len0
    }
    fn olen(&self) -> usize {
        self.count
    }
    fn own(&self) -> Vec<u8> {
        self.arr[self.len0..self.len0 + self.count.min(self.arr.len() - self.len0)].to_vec()
    }
    fn mem(&self) -> Vec<u8> {
        self.arr.clone()
    }
}

/// `&mut &mut [u8]`: the referenced slice is narrowed to the initialized part when the
/// view is released. `Buffer` is implemented for `&'d mut &'d mut [u8]`, which borrows
/// the slice reference for its whole lifetime; to look at it afterwards (and to open
/// another view) the harness goes through a raw pointer.
struct SliceRefOwner {
    base: *mut u8,
    cap: usize,
    cur: *mut [u8], // the current `&mut [u8]` as a raw slice pointer
    raw: *mut [u8], // the allocation (a leaked Box<[u8]>, freed in Drop)
}
impl Drop for SliceRefOwner {
    fn drop(&mut self) {
        unsafe { drop(Box::from_raw(self.raw)) }
    }
}
impl SliceRefOwner {
    fn new(mem0: &[u8], len0: usize) -> SliceRefOwner {
        let arr: Box<[u8]> = mem0.to_vec().into_boxed_slice();
        let cap = arr.len();
        let raw: *mut [u8] = Box::into_raw(arr);
        let base = raw as *mut u8;
        let cur = std::ptr::slice_from_raw_parts_mut(unsafe { base.add(len0) }, cap - len0);
        SliceRefOwner { base, cap, cur, raw }
    }
}
/// the narrowing in Drop must be seen even when the call unwinds
struct SaveCur<'a>(*mut &'a mut [u8], *mut *mut [u8]);
impl<'a> Drop for SaveCur<'a> {
    fn drop(&mut self) {
        unsafe { *self.1 = &mut **self.0 as *mut [u8] }
    }
}
impl Owner for SliceRefOwner {
    fn touch(&mut self, ks: &[usize]) {
        let mut s: &mut [u8] = unsafe { &mut *self.cur };
        let p: *mut &mut [u8] = &mut s;
        let _save = SaveCur(p, &mut self.cur);
        touch_chain!((unsafe { &mut *p }), ks);
    }
    fn open(&mut self, ks: &[usize], via: u8, cx: &mut Cx, act: Value) -> Exit {
        let mut s: &mut [u8] = unsafe { &mut *self.cur };
        let p: *mut &mut [u8] = &mut s;
        let _save = SaveCur(p, &mut self.cur);
        open_via!((unsafe { &mut *p }), ks, via, cx, act, 1)
    }
    fn read(&mut self, rd: &Rd, bs: &[u8], ks: &[usize]) -> Result<Vec<u8>, ()> {
        let mut s: &mut [u8] = unsafe { &mut *self.cur };
        let p: *mut &mut [u8] = &mut s;
        let _save = SaveCur(p, &mut self.cur);
        with_reader(rd, bs, &mut |mut r| read_result(read_chain!(r, (unsafe { &mut *p }), ks)))
    }
    fn user(&mut self, who: u8, input: &[u8], ks: &[usize]) -> (&'static str, Option<Vec<u8>>) {
        let mut s: &mut [u8] = unsafe { &mut *self.cur };
        let p: *mut &mut [u8] = &mut s;
        let _save = SaveCur(p, &mut self.cur);
        owner_user_chain!(who, input, (unsafe { &mut *p }), ks)
    }
    fn spare(&self) -> usize {
        unsafe { (&*self.cur).len() }
    }
    fn olen(&self) -> usize {
        unsafe { (&*self.cur).len() }
    }
    fn own(&self) -> Vec<u8> {
        unsafe { (&*self.cur).to_vec() }
    }
    fn mem(&self) -> Vec<u8> {
        unsafe { std::slice::from_raw_parts(self.base, self.cap).to_vec() }
    }
}

thread_local! {
    static PANIC_LOC: std::cell::RefCell<String> = std::cell::RefCell::new(String::new());
}
/// silent panic hook that remembers the location per thread
fn install_panic_hook() {
    std::panic::set_hook(Box::new(|info| {
        let loc = info.location().map(|l| format!("{}:{}", l.file(), l.line())).unwrap_or_default();
        PANIC_LOC.with(|c| *c.borrow_mut() = loc);
    }));
}
fn last_panic_location() -> String {
    PANIC_LOC.with(|c| c.borrow().clone())
}

fn panic_text(p: &Box<dyn std::any::Any + Send>) -> String {
    if let Some(s) = p.downcast_ref::<&str>() {
        s.to_string()
    } else if let Some(s) = p.downcast_ref::<String>() {
        s.clone()
    } else {
        "panic".to_string()
    }
}
fn panic_out(p: &Box<dyn std::any::Any + Send>) -> Out {
    Out { r: "panic", msg: Some(panic_text(p)), loc: Some(last_panic_location()), ..Default::default() }
}

/// Top-level loop of one run (after set-up). Returns false when the run ended in a panic
/// of the library.
fn top_loop(cx: &mut Cx, owner: &mut dyn Owner) -> bool {
    loop {
        let op = match cx.src.next(None, owner.spare()) {
            Some(op) => op,
            None => return true,
        };
        let op = match op {
            // the random driver does not know the length: new capacity = length + new spare memory
            Op::Grow { cap, tail } if cap == usize::MAX => Op::Grow { cap: owner.olen() + tail.len(), tail },
            o => o,
        };
        let act = cx.act(&op);
        match op {
            Op::Open { .. } | Op::RawDirty { .. } => {
                cx.current = Some(act.clone());
                cx.unwinding = None;
                let r = catch_unwind(AssertUnwindSafe(|| match &op {
                    Op::Open { ks, via } => Some(owner.open(ks, *via, cx, act.clone())),
                    Op::RawDirty { n } => owner.rawdirty(*n, cx, act.clone()),
                    _ => unreachable!(),
                }));
                match r {
                    Ok(None) => {
                        cx.current = None;
                        cx.push(act, Out { r: "refused", ..Default::default() });
                    }
                    Ok(Some(Exit::Closed(i))) => {
                        cx.patch_owner(i, owner.olen(), owner.own());
                    }
                    Ok(Some(Exit::EndOfPlan)) => return true,
                    Ok(Some(Exit::Reopen(_))) => panic!("harness: reopen escaped"),
                    Err(p) => {
                        if p.downcast_ref::<UnwindMarker>().is_some() || cx.refusal_expected {
                            cx.refusal_expected = false;
                            let i = cx.unwinding.take().expect("harness: unwind without event");
                            cx.patch_owner(i, owner.olen(), owner.own());
                        } else {
                            let a = cx.current.take().unwrap_or(act);
                            cx.push(a, panic_out(&p));
                            return false;
                        }
                    }
                }
            }
            Op::Read { bs, ks, rd } => {
                cx.current = Some(act.clone());
                let r = catch_unwind(AssertUnwindSafe(|| owner.read(&rd, &bs, &ks)));
                match r {
                    Ok(r) => {
                        let mut o = read_out(r);
                        o.olen = Some(owner.olen());
                        o.own = Some(owner.own());
                        cx.push(act, o);
                    }
                    Err(p) => {
                        cx.push(act, panic_out(&p));
                        return false;
                    }
                }
            }
            Op::User { who, bs, ks, ret } => {
                cx.current = Some(act.clone());
                let (input, reference) = user_reference(who, &bs);
                let act = if cx.lite { act } else { act_of(&Op::User { who, bs: reference, ks: ks.clone(), ret }) };
                let r = catch_unwind(AssertUnwindSafe(|| owner.user(who, &input, &ks)));
                match r {
                    Ok((r, data)) => {
                        let mut o = Out { r, olen: Some(owner.olen()), own: Some(owner.own()), ..Default::default() };
                        if ret {
                            o.data = Some(data.unwrap_or_default());
                        }
                        cx.push(act, o);
                    }
                    Err(p) => {
                        cx.push(act, panic_out(&p));
                        return false;
                    }
                }
            }
            Op::Touch { ks } => {
                cx.current = Some(act.clone());
                match catch_unwind(AssertUnwindSafe(|| owner.touch(&ks))) {
                    Ok(()) => {
                        let o = Out { r: "ok", olen: Some(owner.olen()), own: Some(owner.own()), ..Default::default() };
                        cx.push(act, o);
                    }
                    Err(p) => {
                        cx.push(act, panic_out(&p));
                        return false;
                    }
                }
            }
            Op::Grow { cap, tail } => {
                owner.grow(cap, &tail);
                let o = Out { r: "ok", olen: Some(owner.olen()), own: Some(owner.own()), ..Default::default() };
                cx.push(act, o);
            }
            Op::Final => {
                cx.push(act, Out { r: "ok", mem: Some(owner.mem()), ..Default::default() });
                return true;
            }
            other => panic!("harness: {:?} at top level", other),
        }
    }
}

macro_rules! arr_owner {
    ($cx:expr, $mem0:expr, $len0:expr, $cap:expr, $($n:literal)*) => {
        match $cap {
            $( $n => {
                let mut a = [0u8; $n];
                a.copy_from_slice(&$mem0);
                let mut v = ArrayVec::from(a);
                v.truncate($len0);
                top_loop($cx, &mut ArrOwner { v })
            } )*
            _ => panic!("harness: unsupported ArrayVec capacity {}", $cap),
        }
    };
}

/// Executes one run: setup ... final. Returns false when no more runs (plan exhausted).
fn exec_run(cx: &mut Cx) -> bool {
    let op = match cx.src.next(None, 0) {
        Some(op) => op,
        None => return false,
    };
    let act = cx.act(&op);
    let (kind, cap, len0, mem0) = match op {
        Op::Setup { kind, cap, len0, mem0 } => (kind, cap, len0, mem0),
        other => panic!("harness: run must start with setup, got {:?}", other),
    };
    assert!(mem0.len() == cap && len0 <= cap, "harness: bad setup");
    cx.push(act, Out::ok());
    match kind.as_str() {
        "vec" => {
            let mut v = mem0.clone();
            v.shrink_to_fit();
            assert!(v.capacity() == cap, "harness: Vec capacity {} != {}", v.capacity(), cap);
            v.truncate(len0);
            top_loop(cx, &mut VecOwner { v, cap });
        }
        "arrayvec" => {
            arr_owner!(cx, mem0, len0, cap, 0 1 2 3 4 5 6 7 8 16 32 64 128 256 512 1024 2048 4096 8192 16384);
        }
        "slice" => {
            top_loop(cx, &mut SliceOwner { arr: mem0.clone(), len0 });
        }
        "sliceref" => {
            top_loop(cx, &mut SliceRefOwner::new(&mem0, len0));
        }
        "raw" => {
            top_loop(cx, &mut RawOwner { arr: mem0.clone(), len0, count: 0 });
        }
        other => panic!("harness: unknown kind {}", other),
    }
    true
}

fn exec_plan(plan: Vec<Op>) -> Vec<(Value, Value)> {
    let mut cx = Cx::new(Source::Plan(plan, 0), false);
    exec_run(&mut cx);
    cx.events
}

// ------------------------------------------------------------------ graph walk (direction A)

struct Edge {
    act: Value,
    label: String,
    out: Value,
    det: bool,
    to: usize,
}

struct Graph {
    ids: HashMap<String, usize>,
    phase: Vec<u8>, // 0 idle, 1 closed, 2 open, 3 final
    kind: Vec<String>,
    edges: Vec<Vec<Edge>>,
}

impl Graph {
    fn node(&mut self, st: &Value) -> usize {
        let key = vh_common::canon(st);
        if let Some(i) = self.ids.get(&key) {
            return *i;
        }
        let i = self.edges.len();
        self.ids.insert(key, i);
        self.phase.push(match st["phase"].as_str().unwrap_or("") {
            "idle" => 0,
            "closed" => 1,
            "open" => 2,
            _ => 3,
        });
        self.kind.push(st["kind"].as_str().unwrap_or("").to_string());
        self.edges.push(Vec::new());
        i
    }
}

/// observed outcome `obs` agrees with the edge's `out` (a spec memory cell -1 is unspecified)
fn out_matches(spec: &Value, obs: &Value) -> bool {
    let (s, o) = match (spec.as_object(), obs.as_object()) {
        (Some(s), Some(o)) => (s, o),
        _ => return false,
    };
    if s.len() != o.len() {
        return false;
    }
    for (k, sv) in s {
        let ov = match o.get(k) {
            Some(v) => v,
            None => return false,
        };
        if k == "mem" {
            let (sa, oa) = match (sv.as_array(), ov.as_array()) {
                (Some(a), Some(b)) => (a, b),
                _ => return false,
            };
            if sa.len() != oa.len() {
                return false;
            }
            for (x, y) in sa.iter().zip(oa) {
                if x.as_i64() != Some(-1) && x != y {
                    return false;
                }
            }
        } else if sv != ov {
            return false;
        }
    }
    true
}

fn first_diff(spec: &Value, obs: &Value) -> String {
    if let (Some(s), Some(o)) = (spec.as_object(), obs.as_object()) {
        for (k, sv) in s {
            if o.get(k) != Some(sv) {
                return k.clone();
            }
        }
        for k in o.keys() {
            if !s.contains_key(k) {
                return k.clone();
            }
        }
    }
    "?".to_string()
}

struct Walk<'g> {
    g: &'g Graph,
    depth: usize,
    paths: u64,
    steps: u64,
    covered: &'g Vec<Vec<AtomicBool>>,
    covered_n: u64,
    mismatch_count: u64,
    mismatch_keys: BTreeMap<String, u64>,
    mismatches: Vec<Value>,
    drift_count: u64,
    drift_keys: BTreeMap<String, u64>,
    drifts: Vec<Value>,
    samples: Vec<Value>,
    report: usize,
    want_cover: bool,
    /// crash journal: the plan about to be executed is written here first (single-threaded runs)
    journal: Option<std::fs::File>,
    cover_out: Vec<String>,
    cover_plans: u64,
    maximal: u64,
    nontrivial: u64,
}

impl<'g> Walk<'g> {
    /// complete `path` (edge indices from the idle node) with closes and `final`, run it, compare
    fn run_path(&mut self, path: &[(usize, usize)], end: usize, leaf: bool) {
        let g = self.g;
        let mut full: Vec<(usize, usize)> = path.to_vec();
        let mut n = end;
        loop {
            match g.phase[n] {
                2 => {
                    let j = g.edges[n].iter().position(|e| e.det && e.act["a"] == "close").expect("close edge");
                    full.push((n, j));
                    n = g.edges[n][j].to;
                }
                1 => {
                    let j = g.edges[n].iter().position(|e| e.act["a"] == "final").expect("final edge");
                    full.push((n, j));
                    break;
                }
                _ => break,
            }
        }
        let plan: Vec<Op> = full.iter().map(|(s, j)| parse_op(&g.edges[*s][*j].act)).collect();
        let plan_json: Vec<Value> = full.iter().map(|(s, j)| g.edges[*s][*j].act.clone()).collect();
        if let Some(f) = self.journal.as_mut() {
            use std::io::{Seek, SeekFrom};
            let line = Value::Array(plan_json.clone()).to_string();
            let _ = f.seek(SeekFrom::Start(0));
            let _ = f.set_len(0);
            let _ = f.write_all(line.as_bytes());
            let _ = f.flush();
        }
        let events = exec_plan(plan);
        self.paths += 1;
        self.steps += events.len() as u64;
        if plan_json.iter().any(|a| a.get("bs").and_then(|b| b.as_array()).map(|b| !b.is_empty()).unwrap_or(false)) {
            self.nontrivial += 1;
        }
        if leaf {
            self.maximal += 1;
        }
        // cover bookkeeping
        {
            let mut new = false;
            for (s, j) in &full {
                if !self.covered[*s][*j].swap(true, Ordering::Relaxed) {
                    self.covered_n += 1;
                    new = true;
                }
            }
            if new && self.want_cover {
                self.cover_out.push(Value::Array(plan_json.clone()).to_string());
                self.cover_plans += 1;
            }
        }
        if self.samples.len() < 3 && full.len() >= 5 && (self.paths % 97 == 1) {
            self.samples.push(json!({"plan": plan_json, "observed": events.iter().map(|e| e.1.clone()).collect::<Vec<_>>()}));
        }
        // compare
        let mut cur = full[0].0;
        let mut drifted = false;
        for (i, (s, j)) in full.iter().enumerate() {
            let want = &g.edges[*s][*j];
            // a call site inside libtw2 that writes other bytes than TLC expects: the codec differs, not the buffer
            if let Some(e) = events.get(i) {
                let a = want.act["a"].as_str().unwrap_or("");
                if (a == "user" || a == "pk") && e.0["bs"] != want.act["bs"] {
                    self.drift_count += 1;
                    let key = format!("codec:{}:writes other bytes than the specification's codec", want.act.get("who").or(want.act.get("op")).and_then(|x| x.as_str()).unwrap_or(""));
                    *self.drift_keys.entry(key).or_insert(0) += 1;
                    return;
                }
            }
            let obs = match events.get(i) {
                Some(e) => &e.1,
                None => {
                    self.mismatch("missing", i, want, &Value::Null, &plan_json, &g.kind[full[1.min(full.len() - 1)].0]);
                    return;
                }
            };
            // candidate edges from the current spec state with this act
            let cands: Vec<&Edge> = g.edges[cur].iter().filter(|e| e.label == want.label).collect();
            if cands.is_empty() {
                debug_assert!(drifted);
                return; // plan no longer applicable after a drift
            }
            match cands.iter().find(|e| e.det && out_matches(&e.out, obs)).or_else(|| cands.iter().find(|e| out_matches(&e.out, obs))) {
                Some(e) => {
                    if !e.det {
                        drifted = true;
                        self.drift_count += 1;
                        let key = format!("{}:{}", e.act["a"].as_str().unwrap_or(""), obs["r"].as_str().unwrap_or(""));
                        let c = self.drift_keys.entry(key.clone()).or_insert(0);
                        *c += 1;
                        if *c <= 2 {
                            let det = cands.iter().find(|e| e.det).map(|e| e.out.clone()).unwrap_or(Value::Null);
                            self.drifts.push(json!({"key": key, "plan": plan_json, "step": i, "detailed": det, "observed": obs}));
                        }
                    }
                    cur = e.to;
                }
                None => {
                    let det = cands.iter().find(|e| e.det).unwrap_or(&cands[0]);
                    let kind = g.kind[det.to].clone();
                    self.mismatch("deviates", i, det, obs, &plan_json, &kind);
                    return;
                }
            }
        }
    }

    fn mismatch(&mut self, what: &str, step: usize, want: &Edge, obs: &Value, plan: &[Value], kind: &str) {
        self.mismatch_count += 1;
        let a = want.act["a"].as_str().unwrap_or("");
        let r = obs["r"].as_str().unwrap_or(what);
        let detail = if r == "panic" {
            let mut d = format!("at={}", obs["loc"].as_str().unwrap_or(""));
            if want.act.get("ks").is_some() {
                // is one of the cap_at arguments larger than what is there?
                let rem = want.out.get("rem").and_then(|x| x.as_u64());
                let ks = usizes_of(&want.act["ks"]);
                let beyond = match rem {
                    Some(rem) => ks.iter().any(|k| (*k as u64) > rem),
                    None => !ks.is_empty(),
                };
                d = format!("{}:{}", if beyond { "cap_at-beyond-capacity" } else if ks.is_empty() { "nocap" } else { "cap_at-within" }, d);
            }
            d
        } else {
            format!("field={}", first_diff(&want.out, obs))
        };
        let key = format!("{}:{}:{}:{}", r, a, kind, detail);
        let c = self.mismatch_keys.entry(key.clone()).or_insert(0);
        *c += 1;
        let rec = json!({"key": key, "plan": plan, "step": step, "act": want.act, "expected": want.out, "observed": obs});
        match self.mismatches.iter_mut().find(|m| m["key"] == key.as_str()) {
            Some(m) => {
                if m["plan"].as_array().map(|p| p.len()).unwrap_or(0) > plan.len() {
                    *m = rec;
                }
            }
            None => {
                if self.mismatches.len() < self.report {
                    self.mismatches.push(rec);
                }
            }
        }
    }

    fn dfs(&mut self, node: usize, d: usize, path: &mut Vec<(usize, usize)>) {
        let g = self.g;
        let ph = g.phase[node];
        // extensions: detailed edges other than final
        let ext: Vec<usize> = if d < self.depth || ph == 0 {
            (0..g.edges[node].len()).filter(|j| g.edges[node][*j].det && g.edges[node][*j].act["a"] != "final").collect()
        } else {
            Vec::new()
        };
        let leaf = ext.is_empty();
        for j in ext {
            let e = &g.edges[node][j];
            path.push((node, j));
            let nd = if ph == 0 { 0 } else { d + 1 };
            self.dfs(e.to, nd, path);
            path.pop();
        }
        // post-order: maximal paths first, so that the cover set prefers them
        if ph != 0 {
            self.run_path(path, node, leaf);
        }
    }
}

fn cmd_graph(args: &[String]) {
    let mut depth = 4usize;
    let mut report = 40usize;
    let mut cover: Option<String> = None;
    let mut threads = 1usize;
    let mut max_paths = u64::MAX;
    let mut count_only = false;
    let mut journal: Option<String> = None;
    let mut i = 0;
    while i < args.len() {
        match args[i].as_str() {
            "--depth" => { depth = args[i + 1].parse().unwrap(); i += 1; }
            "--report" => { report = args[i + 1].parse().unwrap(); i += 1; }
            "--cover" => { cover = Some(args[i + 1].clone()); i += 1; }
            "--threads" => { threads = args[i + 1].parse().unwrap(); i += 1; }
            "--max-paths" => { max_paths = args[i + 1].parse().unwrap(); i += 1; }
            "--count" => { count_only = true; }
            "--journal" => { journal = Some(args[i + 1].clone()); i += 1; }
            _ => {}
        }
        i += 1;
    }
    let mut g = Graph { ids: HashMap::new(), phase: Vec::new(), kind: Vec::new(), edges: Vec::new() };
    let stdin = std::io::stdin();
    let mut cur: Option<usize> = None;
    let mut nedges = 0u64;
    let mut tlc_tail: Vec<String> = Vec::new();
    for line in stdin.lock().lines() {
        let line = match line { Ok(l) => l, Err(_) => break };
        if !line.starts_with("<<") {
            if !line.trim().is_empty() {
                tlc_tail.push(line);
                if tlc_tail.len() > 60 { tlc_tail.remove(0); }
            }
            continue;
        }
        let t = match vh_common::parse_tlc_tuple(&line) { Some(t) => t, None => continue };
        if t[0] == "S" && t.len() == 2 {
            let st: Value = serde_json::from_str(&t[1]).expect("state json");
            cur = Some(g.node(&st));
        } else if t[0] == "T" && t.len() == 5 {
            let act: Value = serde_json::from_str(&t[1]).expect("act json");
            let out: Value = serde_json::from_str(&t[2]).expect("out json");
            let det = t[3].trim() == "true";
            let st: Value = serde_json::from_str(&t[4]).expect("state json");
            let to = g.node(&st);
            let from = cur.expect("T before S");
            let label = vh_common::canon(&act);
            g.edges[from].push(Edge { act, label, out, det, to });
            nedges += 1;
        }
    }
    let idle = (0..g.edges.len()).find(|i| g.phase[*i] == 0);
    let mut actions: Vec<String> = Vec::new();
    for es in &g.edges {
        for e in es {
            let a = e.act["a"].as_str().unwrap_or("").to_string();
            if !actions.contains(&a) {
                actions.push(a);
            }
        }
    }
    let mut summary = json!({"states": g.edges.len(), "edges": nedges, "tlc_tail": tlc_tail, "actions": actions});
    if let Some(idle) = idle {
        let covered: Vec<Vec<AtomicBool>> = g.edges.iter().map(|e| e.iter().map(|_| AtomicBool::new(false)).collect()).collect();
        let det_edges: u64 = g.edges.iter().map(|e| e.iter().filter(|x| x.det).count() as u64).sum();
        // number of paths the walk will execute (one per path prefix)
        let mut memo: HashMap<(usize, usize), u64> = HashMap::new();
        fn count(g: &Graph, node: usize, d: usize, depth: usize, memo: &mut HashMap<(usize, usize), u64>) -> u64 {
            if let Some(c) = memo.get(&(node, d)) {
                return *c;
            }
            let ph = g.phase[node];
            let mut c: u64 = if ph != 0 { 1 } else { 0 };
            if d < depth || ph == 0 {
                for e in g.edges[node].iter().filter(|e| e.det && e.act["a"] != "final") {
                    c = c.saturating_add(count(g, e.to, if ph == 0 { 0 } else { d + 1 }, depth, memo));
                }
            }
            memo.insert((node, d), c);
            c
        }
        let planned = count(&g, idle, 0, depth, &mut memo);
        summary["planned_paths"] = json!(planned);
        summary["depth"] = json!(depth);
        summary["det_edges"] = json!(det_edges);
        if count_only || planned > max_paths {
            if planned > max_paths {
                summary["error"] = json!(format!("{} paths planned, more than --max-paths {}", planned, max_paths));
            }
            println!("{}", summary);
            return;
        }
        // tasks: (setup edge, first operation edge or none)
        let mut tasks: Vec<Vec<(usize, usize)>> = Vec::new();
        for (j, e) in g.edges[idle].iter().enumerate() {
            if !e.det {
                continue;
            }
            tasks.push(vec![(idle, j)]); // the run with no operation at all
            for (k, e2) in g.edges[e.to].iter().enumerate() {
                if e2.det && e2.act["a"] != "final" && depth >= 1 {
                    tasks.push(vec![(idle, j), (e.to, k)]);
                }
            }
        }
        let next = AtomicUsize::new(0);
        let want_cover = cover.is_some();
        if journal.is_some() {
            threads = 1;
        }
        let jref = &journal;
        let gref = &g;
        let cref = &covered;
        let tref = &tasks;
        let nref = &next;
        let mut walks: Vec<Walk> = Vec::new();
        std::thread::scope(|sc| {
            let hs: Vec<_> = (0..threads.max(1))
                .map(|_| {
                    sc.spawn(move || {
                        let mut w = Walk {
                            g: gref, depth, paths: 0, steps: 0, covered: cref, covered_n: 0, mismatch_count: 0,
                            mismatch_keys: BTreeMap::new(), mismatches: Vec::new(), drift_count: 0, drift_keys: BTreeMap::new(),
                            drifts: Vec::new(), samples: Vec::new(), report, want_cover,
                            journal: jref.as_ref().map(|p| std::fs::File::create(p).expect("journal file")),
                            cover_out: Vec::new(), cover_plans: 0,
                            maximal: 0, nontrivial: 0,
                        };
                        loop {
                            let t = nref.fetch_add(1, Ordering::Relaxed);
                            if t >= tref.len() {
                                break;
                            }
                            let mut path = tref[t].clone();
                            let (n, j) = *path.last().unwrap();
                            let end = gref.edges[n][j].to;
                            if path.len() == 1 {
                                w.run_path(&path, end, depth == 0);
                            } else {
                                w.dfs(end, 1, &mut path);
                            }
                        }
                        w
                    })
                })
                .collect();
            for h in hs {
                walks.push(h.join().expect("walker thread"));
            }
        });
        let mut paths = 0u64; let mut maximal = 0u64; let mut nontrivial = 0u64; let mut steps = 0u64;
        let mut covered_n = 0u64; let mut cover_plans = 0u64; let mut mismatch_count = 0u64; let mut drift_count = 0u64;
        let mut mismatch_keys: BTreeMap<String, u64> = BTreeMap::new();
        let mut drift_keys: BTreeMap<String, u64> = BTreeMap::new();
        let mut mismatches: Vec<Value> = Vec::new();
        let mut drifts: Vec<Value> = Vec::new();
        let mut samples: Vec<Value> = Vec::new();
        let mut cover_file = cover.as_ref().map(|p| std::io::BufWriter::new(std::fs::File::create(p).expect("cover file")));
        for w in walks {
            paths += w.paths; maximal += w.maximal; nontrivial += w.nontrivial; steps += w.steps;
            covered_n += w.covered_n; cover_plans += w.cover_plans; mismatch_count += w.mismatch_count; drift_count += w.drift_count;
            for (k, v) in w.mismatch_keys { *mismatch_keys.entry(k).or_insert(0) += v; }
            for (k, v) in w.drift_keys { *drift_keys.entry(k).or_insert(0) += v; }
            for m in w.mismatches {
                match mismatches.iter_mut().find(|x| x["key"] == m["key"]) {
                    Some(x) => {
                        if x["plan"].as_array().map(|p| p.len()).unwrap_or(0) > m["plan"].as_array().map(|p| p.len()).unwrap_or(0) {
                            *x = m;
                        }
                    }
                    None => mismatches.push(m),
                }
            }
            for d in w.drifts { if drifts.len() < 6 { drifts.push(d); } }
            for x in w.samples { if samples.len() < 3 { samples.push(x); } }
            if let Some(f) = cover_file.as_mut() {
                for l in w.cover_out { let _ = writeln!(f, "{}", l); }
            }
        }
        if let Some(mut f) = cover_file.take() { let _ = f.flush(); }
        mismatches.truncate(report);
        summary["paths"] = json!(paths);
        summary["maximal_paths"] = json!(maximal);
        summary["nontrivial_paths"] = json!(nontrivial);
        summary["steps"] = json!(steps);
        summary["edges_covered"] = json!(covered_n);
        summary["cover_plans"] = json!(cover_plans);
        summary["mismatch_count"] = json!(mismatch_count);
        summary["mismatch_keys"] = json!(mismatch_keys);
        summary["mismatches"] = json!(mismatches);
        summary["drift_count"] = json!(drift_count);
        summary["drift_keys"] = json!(drift_keys);
        summary["drifts"] = json!(drifts);
        summary["samples"] = json!(samples);
    } else {
        summary["error"] = json!("no idle state in the export");
    }
    println!("{}", summary);
}

/// JSON text of a value without serde_json's number formatting (the `itoa` 0.4 it pulls in
/// reads uninitialized memory, which stops Miri before the library under test is reached).
fn js(v: &Value, out: &mut String) {
    match v {
        Value::Null => out.push_str("null"),
        Value::Bool(b) => out.push_str(if *b { "true" } else { "false" }),
        Value::Number(n) => {
            if let Some(i) = n.as_i64() {
                out.push_str(&format!("{}", i));
            } else if let Some(u) = n.as_u64() {
                out.push_str(&format!("{}", u));
            } else {
                out.push_str(&format!("{}", n.as_f64().unwrap_or(0.0)));
            }
        }
        Value::String(s) => {
            out.push('"');
            for c in s.chars() {
                match c {
                    '"' => out.push_str("\\\""),
                    '\\' => out.push_str("\\\\"),
                    '\n' => out.push_str("\\n"),
                    c if (c as u32) < 0x20 => out.push_str(&format!("\\u{:04x}", c as u32)),
                    c => out.push(c),
                }
            }
            out.push('"');
        }
        Value::Array(a) => {
            out.push('[');
            for (i, x) in a.iter().enumerate() {
                if i > 0 {
                    out.push(',');
                }
                js(x, out);
            }
            out.push(']');
        }
        Value::Object(m) => {
            out.push('{');
            for (i, (k, x)) in m.iter().enumerate() {
                if i > 0 {
                    out.push(',');
                }
                js(&Value::String(k.clone()), out);
                out.push(':');
                js(x, out);
            }
            out.push('}');
        }
    }
}

fn print_events(events: &[(Value, Value)]) {
    let out = std::io::stdout();
    let mut out = out.lock();
    for (a, o) in events {
        let mut s = String::new();
        s.push_str("{\"act\":");
        js(a, &mut s);
        s.push_str(",\"out\":");
        js(o, &mut s);
        s.push('}');
        let _ = writeln!(out, "{}", s);
    }
}

fn cmd_run() {
    let stdin = std::io::stdin();
    for line in stdin.lock().lines() {
        let line = match line { Ok(l) => l, Err(_) => break };
        if line.trim().is_empty() { continue; }
        let v: Value = serde_json::from_str(&line).expect("plan json");
        let plan: Vec<Op> = v.as_array().expect("plan array").iter().map(parse_op).collect();
        let events = exec_plan(plan);
        print_events(&events);
    }
}

fn cmd_drive(args: &[String]) {
    let seed: u64 = args[0].parse().unwrap();
    let runs: usize = args[1].parse().unwrap();
    let maxcap: usize = args[2].parse().unwrap();
    let ops: usize = args[3].parse().unwrap();
    let files = args.iter().any(|a| a == "--files");
    let feed = args.iter().any(|a| a == "--feed");
    for r in 0..runs {
        let rng = StdRng::seed_from_u64(seed.wrapping_mul(1_000_003).wrapping_add(r as u64));
        let cfg = RandCfg { maxcap, ops, maxdepth: 3, files, feed };
        let mut cx = Cx::new(Source::Random { rng, cfg, left: ops, started: false, kind: String::new() }, false);
        exec_run(&mut cx);
        print_events(&cx.events);
    }
}

/// Compact plans for the Miri run (no JSON inside the interpreter): one plan per line, operations
/// separated by ';', numbers by blanks:
///   S <kind> <cap> <len0> <mem0...> ; O <via 0..2> <ks...> ; W <bs...> ; E <iterator kind 0..3> <bs...> ; A <bs...> ; X <bs...> ;
///   P <packer op 0..4> <v> <bs...> ; R <reader> <n> <bs (n bytes)...> <ks...> ; Q <claim> <reader> <bs...> ;
///   Y <call site 0..3> <ret 0/1> <n> <bs (n bytes)...> <ks...> ; G <cap> <tail...> ; D <n> ; N ; V <n> ; T <ks...> ; C ; I ; U ; F
///   with <reader> = <kind 0..10> <j> <n2> <bs2 (n2 bytes)...>
fn parse_compact(line: &str) -> Vec<Op> {
    let mut ops = Vec::new();
    for part in line.split(';') {
        let mut it = part.split_whitespace();
        let code = match it.next() {
            Some(c) => c,
            None => continue,
        };
        let inums: Vec<i64> = if code == "S" {
            Vec::new()
        } else {
            it.clone().map(|x| x.parse().expect("number")).collect()
        };
        let nums: Vec<usize> = inums.iter().map(|x| *x as usize).collect();
        let bytes = |v: &[usize]| -> Vec<u8> { v.iter().map(|x| *x as u8).collect() };
        // reader: k j nbs2 bs2...  -> (Rd, rest)
        let reader = |v: &[usize]| -> (Rd, Vec<usize>) {
            let n2 = v[2];
            (Rd { k: v[0] as u8, j: v[1], bs2: bytes(&v[3..3 + n2]) }, v[3 + n2..].to_vec())
        };
        ops.push(match code {
            "S" => {
                let kind = it.next().expect("kind").to_string();
                let v: Vec<usize> = it.map(|x| x.parse().expect("number")).collect();
                Op::Setup { kind, cap: v[0], len0: v[1], mem0: bytes(&v[2..]) }
            }
            "O" => Op::Open { via: nums[0] as u8, ks: nums[1..].to_vec() },
            "W" => Op::Write { bs: bytes(&nums) },
            "E" => Op::Extend { bs: bytes(&nums[1..]), it: nums[0] as u8 },
            "P" => Op::Pk { op: nums[0] as u8, v: inums[1], bs: bytes(&nums[2..]) },
            "A" => Op::Advance { bs: bytes(&nums) },
            "X" => Op::Scribble { bs: bytes(&nums) },
            "R" => {
                let (rd, rest) = reader(&nums);
                let n = rest[0];
                Op::Read { bs: bytes(&rest[1..1 + n]), ks: rest[1 + n..].to_vec(), rd }
            }
            "Q" => {
                let (rd, rest) = reader(&nums[1..]);
                Op::ReadClose { bs: bytes(&rest), claim: nums[0], rd }
            }
            "Y" => {
                let n = nums[2];
                Op::User { who: nums[0] as u8, ret: nums[1] != 0, bs: bytes(&nums[3..3 + n]), ks: nums[3 + n..].to_vec() }
            }
            "G" => Op::Grow { cap: nums[0], tail: bytes(&nums[1..]) },
            "D" => Op::RawDirty { n: nums[0] },
            "N" => Op::Reopen,
            "V" => Op::OverAdvance { n: nums[0] },
            "T" => Op::Touch { ks: nums },
            "C" => Op::Close,
            "I" => Op::CloseInit,
            "U" => Op::Unwind,
            "F" => Op::Final,
            other => panic!("harness: unknown compact op {}", other),
        });
    }
    ops
}

/// `run-lite`: executes compact plans from stdin without building JSON; prints the number of plans,
/// the number of library panics and a checksum of everything observed.
fn cmd_run_lite() {
    let stdin = std::io::stdin();
    let mut plans = 0u64;
    let mut sum = 0u64;
    let mut events = 0u64;
    for line in stdin.lock().lines() {
        let line = match line { Ok(l) => l, Err(_) => break };
        if line.trim().is_empty() { continue; }
        let mut cx = Cx::new(Source::Plan(parse_compact(&line), 0), true);
        exec_run(&mut cx);
        plans += 1;
        events += cx.events.len() as u64;
        sum = sum.rotate_left(7) ^ cx.sum;
    }
    println!("LITE plans={} events={} sum={:016x}", plans, events, sum);
}

fn main() {
    install_panic_hook();
    let args: Vec<String> = std::env::args().collect();
    match args.get(1).map(|s| s.as_str()) {
        Some("graph") => cmd_graph(&args[2..]),
        Some("run") => cmd_run(),
        Some("run-lite") => cmd_run_lite(),
        Some("drive") => cmd_drive(&args[2..]),
        _ => {
            eprintln!("usage: vh-buffer graph|run|drive ...");
            std::process::exit(2);
        }
    }
}
