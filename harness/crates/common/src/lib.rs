//! Helpers shared by all harness crates: panic capture, hang watchdog, parsing of
//! TLC `PrintT` export lines, canonical JSON, seeded RNG.
use serde_json::Value;
use std::io::Write;
use std::panic;
use std::sync::atomic::{AtomicU64, Ordering};
use std::sync::Mutex;
use std::time::{Duration, Instant};

pub use rand;
pub use serde_json;

/// Runs `f`, turning a panic into `Err(message)`. The default panic hook is
/// silenced once (`quiet_panics`).
pub fn catch<T, F: FnOnce() -> T>(f: F) -> Result<T, String> {
    match panic::catch_unwind(panic::AssertUnwindSafe(f)) {
        Ok(v) => Ok(v),
        Err(e) => {
            let msg = if let Some(s) = e.downcast_ref::<&str>() {
                s.to_string()
            } else if let Some(s) = e.downcast_ref::<String>() {
                s.clone()
            } else {
                "panic".to_string()
            };
            Err(msg)
        }
    }
}

static LAST_PANIC_LOC: Mutex<Option<String>> = Mutex::new(None);

/// Install a panic hook that prints nothing but remembers the location.
pub fn quiet_panics() {
    panic::set_hook(Box::new(|info| {
        let loc = info
            .location()
            .map(|l| format!("{}:{}", l.file(), l.line()))
            .unwrap_or_default();
        if let Ok(mut g) = LAST_PANIC_LOC.lock() {
            *g = Some(loc);
        }
    }));
}

pub fn last_panic_location() -> String {
    LAST_PANIC_LOC
        .lock()
        .ok()
        .and_then(|g| g.clone())
        .unwrap_or_default()
}

// ---------------------------------------------------------------- watchdog
//
// A call into the library that does not return is *data*: the watchdog thread
// prints one line `HANG <json of the current case>` on stdout and exits the
// process with code 97. Drivers call `set_case` before each case and
// `arm`/`disarm` around library calls (or around the whole case).

static DEADLINE_MS: AtomicU64 = AtomicU64::new(0);
static CASE: Mutex<String> = Mutex::new(String::new());
static START: Mutex<Option<Instant>> = Mutex::new(None);

fn now_ms() -> u64 {
    let mut g = START.lock().unwrap();
    if g.is_none() {
        *g = Some(Instant::now());
    }
    g.unwrap().elapsed().as_millis() as u64 + 1
}

pub const HANG_EXIT_CODE: i32 = 97;

pub fn start_watchdog() {
    now_ms();
    std::thread::spawn(|| loop {
        std::thread::sleep(Duration::from_millis(100));
        let d = DEADLINE_MS.load(Ordering::SeqCst);
        if d != 0 && now_ms() > d {
            let case = CASE.lock().map(|c| c.clone()).unwrap_or_default();
            let out = std::io::stdout();
            let mut out = out.lock();
            let _ = writeln!(out, "HANG {}", case);
            let _ = out.flush();
            std::process::exit(HANG_EXIT_CODE);
        }
    });
}

pub fn set_case(case: &str) {
    if let Ok(mut c) = CASE.lock() {
        c.clear();
        c.push_str(case);
    }
}

pub fn arm(ms: u64) {
    DEADLINE_MS.store(now_ms() + ms, Ordering::SeqCst);
}

pub fn disarm() {
    DEADLINE_MS.store(0, Ordering::SeqCst);
}

/// Runs `f` under the watchdog (time limit `ms`) and `catch`.
pub fn guarded<T, F: FnOnce() -> T>(ms: u64, f: F) -> Result<T, String> {
    arm(ms);
    let r = catch(f);
    disarm();
    r
}

// ---------------------------------------------------------------- TLC export lines

/// Parses a TLC-printed tuple of strings, e.g. `<<"T", "{\"a\":1}", "{...}">>`,
/// into its components (unescaped). Returns `None` for any other line.
pub fn parse_tlc_tuple(line: &str) -> Option<Vec<String>> {
    let line = line.trim();
    let inner = line.strip_prefix("<<")?.strip_suffix(">>")?;
    let b = inner.as_bytes();
    let mut out = Vec::new();
    let mut i = 0;
    while i < b.len() {
        match b[i] {
            b' ' | b',' => i += 1,
            b'"' => {
                i += 1;
                let mut s = Vec::new();
                loop {
                    if i >= b.len() {
                        return None;
                    }
                    match b[i] {
                        b'\\' if i + 1 < b.len() => {
                            match b[i + 1] {
                                b'n' => s.push(b'\n'),
                                b't' => s.push(b'\t'),
                                c => s.push(c),
                            }
                            i += 2;
                        }
                        b'"' => {
                            i += 1;
                            break;
                        }
                        c => {
                            s.push(c);
                            i += 1;
                        }
                    }
                }
                out.push(String::from_utf8(s).ok()?);
            }
            _ => {
                // a non-string component (number, TRUE/FALSE): read up to the next comma
                let start = i;
                while i < b.len() && b[i] != b',' {
                    i += 1;
                }
                out.push(inner[start..i].trim().to_string());
            }
        }
    }
    Some(out)
}

/// Canonical (sorted-key, compact) serialisation: TLC's `ToJson` does not emit
/// record fields in a canonical order.
pub fn canon(v: &Value) -> String {
    fn go(v: &Value, out: &mut String) {
        match v {
            Value::Object(m) => {
                let mut keys: Vec<&String> = m.keys().collect();
                keys.sort();
                out.push('{');
                for (i, k) in keys.iter().enumerate() {
                    if i > 0 {
                        out.push(',');
                    }
                    out.push_str(&serde_json::to_string(k).unwrap());
                    out.push(':');
                    go(&m[*k], out);
                }
                out.push('}');
            }
            Value::Array(a) => {
                out.push('[');
                for (i, x) in a.iter().enumerate() {
                    if i > 0 {
                        out.push(',');
                    }
                    go(x, out);
                }
                out.push(']');
            }
            other => out.push_str(&other.to_string()),
        }
    }
    let mut s = String::new();
    go(v, &mut s);
    s
}

pub fn seed_from_env() -> u64 {
    std::env::var("VERIF_SEED")
        .ok()
        .and_then(|s| s.parse().ok())
        .unwrap_or(1)
}

pub fn hex(b: &[u8]) -> String {
    let mut s = String::with_capacity(b.len() * 2);
    for x in b {
        s.push_str(&format!("{:02x}", x));
    }
    s
}

pub fn unhex(s: &str) -> Vec<u8> {
    (0..s.len() / 2)
        .map(|i| u8::from_str_radix(&s[2 * i..2 * i + 2], 16).unwrap())
        .collect()
}

#[cfg(test)]
mod test {
    use super::*;
    #[test]
    fn tuple() {
        let v = parse_tlc_tuple(r#"<<"T", "{\"a\":1}", "x">>"#).unwrap();
        assert_eq!(v, vec!["T".to_string(), "{\"a\":1}".to_string(), "x".to_string()]);
        assert!(parse_tlc_tuple("Finished in 3s").is_none());
    }
}
