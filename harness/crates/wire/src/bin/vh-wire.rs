//! Harness for the packet wire format (C05, C06): `libtw2_net::protocol` (0.6/DDNet) and
//! `libtw2_net::protocol7` (0.7).
//!
//! A *case* (one JSON object) says what to do with the real code; the harness does it and
//! emits an *event* (the case plus what the code really did). Events are judged by
//! `spec/wire/WireTrace.tla`; nothing is judged here. Cases come either from TLC
//! (`MC_Wire.tla` with Export = TRUE, lines `<<"V", "<json>">>` on stdin; `exec`) or from the
//! seeded generators of direction B (`drive`).
//!
//! Panics and hangs of the library are data: `{"r":"panic"}` in the event, `HANG <case>` and
//! exit code 97 from the watchdog.
use libtw2_huffman::instances::TEEWORLDS as HUFFMAN;
use libtw2_net::protocol as p6;
use libtw2_net::protocol7 as p7;
use rand::rngs::StdRng;
use rand::Rng;
use rand::SeedableRng;
use serde_json::json;
use serde_json::Map;
use serde_json::Value;
use std::fmt::Debug;
use std::io::BufRead;
use std::io::Write;
use vh_common::guarded;
use zerocopy::AsBytes;
use zerocopy::FromBytes;

const WD_MS: u64 = 5000;
const DEFAULT_CAP: usize = 2048;

// ---------------------------------------------------------------- JSON helpers

fn bj(b: &[u8]) -> Value {
    Value::Array(b.iter().map(|&x| Value::from(x)).collect())
}

fn jb(v: &Value) -> Vec<u8> {
    v.as_array()
        .map(|a| a.iter().map(|x| x.as_u64().unwrap_or(0) as u8).collect())
        .unwrap_or_default()
}

fn names<W: Debug>(w: &[W]) -> Value {
    Value::Array(w.iter().map(|x| Value::from(format!("{:?}", x))).collect())
}

fn variant<E: Debug>(e: &E) -> String {
    // `Capacity(CapacityError)` -> `Capacity`
    let s = format!("{:?}", e);
    s.split(|c: char| !c.is_alphanumeric()).next().unwrap_or("").to_string()
}

fn panic_json(msg: &str) -> Value {
    json!({"r": "panic", "msg": msg, "at": vh_common::last_panic_location()})
}

fn skip() -> Value {
    json!({"r": "skip"})
}

fn tok4(v: &Value) -> [u8; 4] {
    let b = jb(v);
    let mut t = [0u8; 4];
    for (i, x) in b.iter().take(4).enumerate() {
        t[i] = *x;
    }
    t
}

// ---------------------------------------------------------------- scratch buffers with canaries

const MARGIN: usize = 64;
const CANARY: u8 = 0xA5;

struct Arena {
    mem: Vec<u8>,
    cap: usize,
}

impl Arena {
    fn new(cap: usize) -> Arena {
        let mut mem = vec![CANARY; cap + 2 * MARGIN];
        for b in &mut mem[MARGIN..MARGIN + cap] {
            *b = 0x5A;
        }
        Arena { mem, cap }
    }
    fn range(&self) -> (usize, usize) {
        let s = self.mem.as_ptr() as usize + MARGIN;
        (s, s + self.cap)
    }
    fn slice(&mut self) -> &mut [u8] {
        let cap = self.cap;
        &mut self.mem[MARGIN..MARGIN + cap]
    }
    fn content(&self, n: usize) -> &[u8] {
        &self.mem[MARGIN..MARGIN + n.min(self.cap)]
    }
    fn canary_ok(&self) -> bool {
        self.mem[..MARGIN].iter().all(|&b| b == CANARY)
            && self.mem[MARGIN + self.cap..].iter().all(|&b| b == CANARY)
    }
}

fn range_of(s: &[u8]) -> (usize, usize) {
    (s.as_ptr() as usize, s.as_ptr() as usize + s.len())
}

/// A returned slice lies inside the input or inside the scratch buffer (empty slices touch nothing).
fn inside(s: &[u8], ranges: &[(usize, usize)]) -> bool {
    if s.is_empty() {
        return true;
    }
    let (a, b) = range_of(s);
    ranges.iter().any(|&(lo, hi)| a >= lo && b <= hi)
}

// ---------------------------------------------------------------- chunk iteration, chunk headers (same shape in both versions)

macro_rules! version_common {
    ($m:ident, $p:ident) => {
        mod $m {
            use super::*;

            /// ChunksIter until the first `None`, under the watchdog.
            pub fn iter_chunks(data: &[u8], nc: u8, ranges: &[(usize, usize)]) -> (Value, bool) {
                let base = data.as_ptr() as usize;
                let r = guarded(WD_MS, || {
                    let mut it = $p::ChunksIter::new(data, nc);
                    let mut w: Vec<$p::Warning> = Vec::new();
                    let mut list = Vec::new();
                    let mut inb = true;
                    let mut runaway = false;
                    while let Some(c) = it.next_warn(&mut w) {
                        // every chunk consumes at least its two header bytes: more chunks than bytes means
                        // the iterator does not make progress (it would never end)
                        if list.len() > data.len() + 1 {
                            runaway = true;
                            break;
                        }
                        inb &= inside(c.data, ranges) && inside(c.data, &[range_of(data)]);
                        let off = (c.data.as_ptr() as usize).wrapping_sub(base);
                        list.push(json!({
                            "off": if c.data.is_empty() && off > data.len() { 0 } else { off },
                            "len": c.data.len(),
                            "vital": c.vital.is_some(),
                            "seq": c.vital.map(|v| v.0).unwrap_or(0),
                            "resend": c.vital.map(|v| v.1).unwrap_or(false),
                        }));
                    }
                    (list, w, inb, runaway)
                });
                // the iterator's other public entry points, on fresh iterators and on one that has been
                // advanced to its end: size_hint, ExactSizeIterator::len, clone + count, collect
                let api = match &r {
                    Ok((list, _, _, false)) => {
                        let n = list.len();
                        let a = guarded(WD_MS, || {
                            let it = $p::ChunksIter::new(data, nc);
                            let hint = it.size_hint();
                            let len = it.len();
                            let count = it.clone().count();
                            let collected: Vec<$p::Chunk> = it.clone().collect();
                            let mut adv = it;
                            let mut hints_ok = true;
                            let mut k = 0usize;
                            while adv.next().is_some() {
                                k += 1;
                                let h = adv.size_hint();
                                hints_ok &= h.0 <= n && h.1.map(|u| u <= n).unwrap_or(false);
                                if k > n + 1 {
                                    break;
                                }
                            }
                            let end_hint = adv.size_hint();
                            let mut v: Vec<$p::Chunk> = Vec::new();
                            v.extend($p::ChunksIter::new(data, nc));
                            (hint, len, count, collected.len(), v.len(), end_hint, hints_ok)
                        });
                        match a {
                            Ok((hint, len, count, coll, ext, end_hint, hints_ok)) => json!({
                                "r": "ok", "lo": hint.0, "hi": hint.1.map(|x| x as i64).unwrap_or(-1), "len": len, "count": count,
                                "collect": coll, "extend": ext, "end_lo": end_hint.0,
                                "end_hi": end_hint.1.map(|x| x as i64).unwrap_or(-1), "bounded": hints_ok}),
                            Err(m) => panic_json(&m),
                        }
                    }
                    _ => skip(),
                };
                match r {
                    Ok((_, _, inb, true)) => (json!({"r": "runaway"}), inb),
                    Ok((list, w, inb, false)) => (json!({"r": "ok", "list": list, "w": names(&w), "api": api}), inb),
                    Err(msg) => (panic_json(&msg), true),
                }
            }

            /// ChunksIter call by call: `pos()` and `len()` before every call, the chunk and the warnings of
            /// that call, the first `None`, and two more calls after it.
            pub fn iter_steps(data: &[u8], nc: u8) -> Value {
                let base = data.as_ptr() as usize;
                let r = guarded(WD_MS, || {
                    let mut it = $p::ChunksIter::new(data, nc);
                    let mut steps = Vec::new();
                    let mut inb = true;
                    loop {
                        if steps.len() > data.len() + 1 {
                            return (json!({"r": "runaway"}), inb);
                        }
                        let pos = it.pos();
                        let rem = it.len();
                        let mut w: Vec<$p::Warning> = Vec::new();
                        match it.next_warn(&mut w) {
                            Some(c) => {
                                inb &= inside(c.data, &[range_of(data)]);
                                let off = (c.data.as_ptr() as usize).wrapping_sub(base);
                                steps.push(json!({"pos": pos, "rem": rem, "w": names(&w), "c": {
                                    "off": if c.data.is_empty() && off > data.len() { 0 } else { off },
                                    "len": c.data.len(),
                                    "vital": c.vital.is_some(),
                                    "seq": c.vital.map(|v| v.0).unwrap_or(0),
                                    "resend": c.vital.map(|v| v.1).unwrap_or(false),
                                }}));
                            }
                            None => {
                                let end = json!({"pos": pos, "rem": rem, "w": names(&w), "pos_after": it.pos()});
                                let mut after = Vec::new();
                                for _ in 0..2 {
                                    let mut w2: Vec<$p::Warning> = Vec::new();
                                    let some = it.next_warn(&mut w2).is_some();
                                    after.push(json!({"some": some, "w": names(&w2)}));
                                }
                                return (json!({"r": "ok", "steps": steps, "end": end, "after": after}), inb);
                            }
                        }
                    }
                });
                match r {
                    Ok((mut v, inb)) => {
                        v["inb"] = Value::from(inb);
                        v
                    }
                    Err(m) => {
                        let mut p = panic_json(&m);
                        p["inb"] = Value::from(true);
                        p
                    }
                }
            }

            /// The chunk area the library's `write_chunk` produces for a chunk list.
            pub fn build_area(cl: &Value) -> Result<Vec<u8>, String> {
                let mut area = Vec::new();
                for c in cl.as_array().map(|a| a.as_slice()).unwrap_or(&[]) {
                    let data = jb(&c["data"]);
                    let vital = if c["vital"].as_bool().unwrap_or(false) {
                        Some((c["seq"].as_u64().unwrap_or(0) as u16, c["resend"].as_bool().unwrap_or(false)))
                    } else {
                        None
                    };
                    let mut tmp = vec![0u8; data.len() + 16];
                    let n = guarded(WD_MS, || $p::write_chunk(&data, vital, &mut tmp[..]).map(|s| s.len()))?
                        .map_err(|e| format!("{:?}", e))?;
                    area.extend_from_slice(&tmp[..n]);
                }
                Ok(area)
            }

            fn ch_json(h: $p::ChunkHeader) -> Value {
                json!({"flags": h.flags, "size": h.size})
            }
            fn chv_json(h: $p::ChunkHeaderVital) -> Value {
                json!({"flags": h.h.flags, "size": h.h.size, "seq": h.sequence})
            }
            fn ch_of(h: &Value) -> $p::ChunkHeader {
                $p::ChunkHeader { flags: h["flags"].as_u64().unwrap_or(0) as u8, size: h["size"].as_u64().unwrap_or(0) as u16 }
            }
            fn chv_of(h: &Value) -> $p::ChunkHeaderVital {
                $p::ChunkHeaderVital { h: ch_of(h), sequence: h["seq"].as_u64().unwrap_or(0) as u16 }
            }
            pub fn pack_ch(h: &Value) -> Value {
                let h = ch_of(h);
                match guarded(WD_MS, || h.pack().as_bytes().to_vec()) {
                    Ok(b) => json!({"r": "ok", "bytes": bj(&b)}),
                    Err(m) => panic_json(&m),
                }
            }
            pub fn pack_chv(h: &Value) -> Value {
                let h = chv_of(h);
                match guarded(WD_MS, || h.pack().as_bytes().to_vec()) {
                    Ok(b) => json!({"r": "ok", "bytes": bj(&b)}),
                    Err(m) => panic_json(&m),
                }
            }
            pub fn unpack_ch(b: &[u8]) -> Value {
                let r = guarded(WD_MS, || {
                    let mut w: Vec<$p::Warning> = Vec::new();
                    let packed = $p::ChunkHeaderPacked::read_from(b).expect("size");
                    let h = packed.unpack_warn(&mut w);
                    (h, w)
                });
                match r {
                    Ok((h, w)) => json!({"r": "ok", "h": ch_json(h), "w": names(&w)}),
                    Err(m) => panic_json(&m),
                }
            }
            pub fn unpack_chv(b: &[u8]) -> Value {
                let r = guarded(WD_MS, || {
                    let mut w: Vec<$p::Warning> = Vec::new();
                    let packed = $p::ChunkHeaderVitalPacked::read_from(b).expect("size");
                    let h = packed.unpack_warn(&mut w);
                    (h, w)
                });
                match r {
                    Ok((h, w)) => json!({"r": "ok", "h": chv_json(h), "w": names(&w)}),
                    Err(m) => panic_json(&m),
                }
            }

            // the same calls without JSON, for the sweeps over whole header spaces (class tables)
            pub fn fast_un_ch(b: &[u8], wn: &[String]) -> ([i64; 3], i64) {
                let mut w: Vec<$p::Warning> = Vec::new();
                let h = $p::ChunkHeaderPacked::read_from(b).expect("size").unpack_warn(&mut w);
                ([h.flags as i64, h.size as i64, 0], wmask(&w, wn))
            }
            pub fn fast_un_chv(b: &[u8], wn: &[String]) -> ([i64; 3], i64) {
                let mut w: Vec<$p::Warning> = Vec::new();
                let h = $p::ChunkHeaderVitalPacked::read_from(b).expect("size").unpack_warn(&mut w);
                ([h.h.flags as i64, h.h.size as i64, h.sequence as i64], wmask(&w, wn))
            }
            pub fn fast_pk_ch(f: &[i64; 3], out: &mut [u8; 9]) -> usize {
                let p = $p::ChunkHeader { flags: f[0] as u8, size: f[1] as u16 }.pack();
                out[..2].copy_from_slice(p.as_bytes());
                2
            }
            pub fn fast_pk_chv(f: &[i64; 3], out: &mut [u8; 9]) -> usize {
                let p = $p::ChunkHeaderVital { h: $p::ChunkHeader { flags: f[0] as u8, size: f[1] as u16 }, sequence: f[2] as u16 }.pack();
                out[..3].copy_from_slice(p.as_bytes());
                3
            }
        }
    };
}

version_common!(c6, p6);
version_common!(c7, p7);

// ---------------------------------------------------------------- packet headers

fn pack_ph6(h: &Value) -> Value {
    let h = p6::PacketHeader {
        flags: h["flags"].as_u64().unwrap_or(0) as u8,
        ack: h["ack"].as_u64().unwrap_or(0) as u16,
        num_chunks: h["nc"].as_u64().unwrap_or(0) as u8,
    };
    match guarded(WD_MS, || h.pack().as_bytes().to_vec()) {
        Ok(b) => json!({"r": "ok", "bytes": bj(&b)}),
        Err(m) => panic_json(&m),
    }
}

fn unpack_ph6(b: &[u8]) -> Value {
    let r = guarded(WD_MS, || {
        let mut w: Vec<p6::Warning> = Vec::new();
        let h = p6::PacketHeaderPacked::read_from(b).expect("size").unpack_warn(&mut w);
        (h, w)
    });
    match r {
        Ok((h, w)) => json!({"r": "ok", "h": {"flags": h.flags, "ack": h.ack, "nc": h.num_chunks}, "w": names(&w)}),
        Err(m) => panic_json(&m),
    }
}

fn pack_ph7(h: &Value) -> Value {
    let h = p7::PacketHeader {
        flags: h["flags"].as_u64().unwrap_or(0) as u8,
        ack: h["ack"].as_u64().unwrap_or(0) as u16,
        num_chunks: h["nc"].as_u64().unwrap_or(0) as u8,
        token: p7::Token(tok4(&h["token"])),
    };
    match guarded(WD_MS, || h.pack().as_bytes().to_vec()) {
        Ok(b) => json!({"r": "ok", "bytes": bj(&b)}),
        Err(m) => panic_json(&m),
    }
}

fn unpack_ph7(b: &[u8]) -> Value {
    let r = guarded(WD_MS, || {
        let mut w: Vec<p7::Warning> = Vec::new();
        let h = p7::PacketHeaderPacked::read_from(b).expect("size").unpack_warn(&mut w);
        (h, w)
    });
    match r {
        Ok((h, w)) => json!({"r": "ok", "h": {"flags": h.flags, "ack": h.ack, "nc": h.num_chunks, "token": bj(&h.token.0)}, "w": names(&w)}),
        Err(m) => panic_json(&m),
    }
}

fn pack_phc7(h: &Value) -> Value {
    let h = p7::PacketHeaderConnless {
        flags: h["flags"].as_u64().unwrap_or(0) as u8,
        version: h["version"].as_u64().unwrap_or(0) as u8,
        token: p7::Token(tok4(&h["token"])),
        response_token: p7::Token(tok4(&h["rtoken"])),
    };
    match guarded(WD_MS, || h.pack().as_bytes().to_vec()) {
        Ok(b) => json!({"r": "ok", "bytes": bj(&b)}),
        Err(m) => panic_json(&m),
    }
}

fn unpack_phc7(b: &[u8]) -> Value {
    let r = guarded(WD_MS, || {
        let mut w: Vec<p7::Warning> = Vec::new();
        let h = p7::PacketHeaderConnlessPacked::read_from(b).expect("size").unpack_warn(&mut w);
        (h, w)
    });
    match r {
        Ok((h, w)) => json!({"r": "ok", "h": {"flags": h.flags, "version": h.version, "token": bj(&h.token.0), "rtoken": bj(&h.response_token.0)}, "w": names(&w)}),
        Err(m) => panic_json(&m),
    }
}

fn header_size(v: u64, hk: &str) -> usize {
    match (v, hk) {
        (6, "ph") => 3,
        (7, "ph") => 7,
        (7, "phc") => 9,
        (_, "ch") => 2,
        _ => 3,
    }
}

fn pack_any(v: u64, hk: &str, h: &Value) -> Value {
    match (v, hk) {
        (6, "ph") => pack_ph6(h),
        (6, "ch") => c6::pack_ch(h),
        (6, "chv") => c6::pack_chv(h),
        (7, "ph") => pack_ph7(h),
        (7, "phc") => pack_phc7(h),
        (7, "ch") => c7::pack_ch(h),
        (7, "chv") => c7::pack_chv(h),
        _ => skip(),
    }
}

fn unpack_any(v: u64, hk: &str, b: &[u8]) -> Value {
    if b.len() != header_size(v, hk) {
        return skip();
    }
    match (v, hk) {
        (6, "ph") => unpack_ph6(b),
        (6, "ch") => c6::unpack_ch(b),
        (6, "chv") => c6::unpack_chv(b),
        (7, "ph") => unpack_ph7(b),
        (7, "phc") => unpack_phc7(b),
        (7, "ch") => c7::unpack_ch(b),
        (7, "chv") => c7::unpack_chv(b),
        _ => skip(),
    }
}

// ---------------------------------------------------------------- sweeps of whole header spaces against class tables

/// Bit j set iff warning `wn[j]` was emitted; -1 for a warning the table does not know or one emitted twice.
fn wmask<W: Debug>(w: &[W], wn: &[String]) -> i64 {
    let mut m = 0i64;
    for x in w {
        let name = format!("{:?}", x);
        match wn.iter().position(|n| *n == name) {
            Some(j) if m & (1 << j) == 0 => m |= 1 << j,
            _ => return -1,
        }
    }
    m
}

/// A class table exported by TLC from spec/wire/WireTab.tla: the value the specification defines for
/// every tuple x of a header space, in factored form  base + sum_k val[k][x_k] + inter[classes of x].
struct Tab {
    id: String,
    v: u64,
    hk: String,
    hb: bool,
    sfx: Vec<u8>,
    dom: Vec<usize>,
    wnames: Vec<String>,
    base: Vec<i64>,
    val: Vec<Vec<Vec<i64>>>,
    cls: Vec<Vec<usize>>,
    ncls: Vec<usize>,
    inter: Vec<Vec<i64>>,
}

fn ivec(v: &Value) -> Vec<i64> {
    v.as_array().map(|a| a.iter().map(|x| x.as_i64().unwrap_or(0)).collect()).unwrap_or_default()
}

impl Tab {
    fn from_json(t: &Value) -> Option<Tab> {
        let arr = |v: &Value| v.as_array().cloned().unwrap_or_default();
        let tab = Tab {
            id: t["id"].as_str()?.to_string(),
            v: t["v"].as_u64()?,
            hk: t["hk"].as_str()?.to_string(),
            hb: t["mode"].as_str()? == "hb",
            sfx: jb(&t["sfx"]),
            dom: ivec(&t["dom"]).iter().map(|&x| x as usize).collect(),
            wnames: arr(&t["wnames"]).iter().map(|x| x.as_str().unwrap_or("").to_string()).collect(),
            base: ivec(&t["base"]),
            val: arr(&t["val"]).iter().map(|k| arr(k).iter().map(ivec).collect()).collect(),
            cls: arr(&t["cls"]).iter().map(|k| ivec(k).iter().map(|&x| x as usize).collect()).collect(),
            ncls: ivec(&t["ncls"]).iter().map(|&x| x as usize).collect(),
            inter: arr(&t["inter"]).iter().map(ivec).collect(),
        };
        let n = tab.dom.len();
        let ok = n >= 1 && n <= 3 && tab.val.len() == n && tab.cls.len() == n && tab.ncls.len() == n
            && (0..n).all(|k| tab.val[k].len() == tab.dom[k] && tab.cls[k].len() == tab.dom[k])
            && tab.inter.len() == tab.ncls.iter().product::<usize>();
        if ok { Some(tab) } else { None }
    }
    /// What the table says for tuple x.
    fn expected(&self, x: &[usize], out: &mut [i64]) {
        let mut ix = 0usize;
        let mut mul = 1usize;
        for k in 0..x.len() {
            ix += self.cls[k][x[k]] * mul;
            mul *= self.ncls[k];
        }
        let it = &self.inter[ix];
        for j in 0..self.base.len() {
            let mut a = self.base[j] + it[j];
            for k in 0..x.len() {
                a += self.val[k][x[k]][j];
            }
            out[j] = a;
        }
    }
    /// What the real code does for tuple x, laid out like the table's vectors. Returns the length.
    fn real(&self, x: &[usize], out: &mut [i64]) -> usize {
        let mut b = [0u8; 12];
        let mut f = [0i64; 3];
        let mut t = [0u8; 8];
        let nt = self.sfx.len();
        let nf = match self.hk.as_str() { "ph" | "chv" => 3, _ => 2 };
        let mut n = 0usize;
        if self.hb {
            for (k, &xk) in x.iter().enumerate() {
                b[k] = xk as u8;
            }
            let nb = x.len() + nt;
            b[x.len()..nb].copy_from_slice(&self.sfx);
            let wm = fast_unpack(self.v, &self.hk, &b[..nb], &self.wnames, &mut f, &mut t);
            let mut rb = [0u8; 9];
            let rn = fast_pack(self.v, &self.hk, &f, &t, &mut rb);
            for j in 0..nf { out[n] = f[j]; n += 1; }
            for j in 0..nt { out[n] = t[j] as i64; n += 1; }
            out[n] = wm; n += 1;
            for j in 0..rn { out[n] = rb[j] as i64; n += 1; }
        } else {
            for (k, &xk) in x.iter().enumerate() {
                f[k] = xk as i64;
            }
            t[..nt].copy_from_slice(&self.sfx);
            let mut pb = [0u8; 9];
            let pn = fast_pack(self.v, &self.hk, &f, &t, &mut pb);
            let mut f2 = [0i64; 3];
            let mut t2 = [0u8; 8];
            let wm = fast_unpack(self.v, &self.hk, &pb[..pn], &self.wnames, &mut f2, &mut t2);
            for j in 0..pn { out[n] = pb[j] as i64; n += 1; }
            for j in 0..nf { out[n] = f2[j]; n += 1; }
            for j in 0..nt { out[n] = t2[j] as i64; n += 1; }
            out[n] = wm; n += 1;
        }
        n
    }
    /// The ordinary hb / hf case of tuple x (what `exec_case` takes).
    fn case(&self, x: &[usize]) -> Value {
        if self.hb {
            let mut b: Vec<u8> = x.iter().map(|&v| v as u8).collect();
            b.extend_from_slice(&self.sfx);
            json!({"k": "hb", "v": self.v, "hk": self.hk, "b": bj(&b)})
        } else {
            let h = match (self.v, self.hk.as_str()) {
                (6, "ph") => json!({"flags": x[0], "ack": x[1], "nc": x[2]}),
                (_, "ph") => json!({"flags": x[0], "ack": x[1], "nc": x[2], "token": bj(&self.sfx)}),
                (_, "phc") => json!({"flags": x[0], "version": x[1], "token": bj(&self.sfx[..4]), "rtoken": bj(&self.sfx[4..])}),
                (_, "ch") => json!({"flags": x[0], "size": x[1]}),
                _ => json!({"flags": x[0], "size": x[1], "seq": x[2]}),
            };
            json!({"k": "hf", "v": self.v, "hk": self.hk, "h": h})
        }
    }
}

fn fast_unpack(v: u64, hk: &str, b: &[u8], wn: &[String], f: &mut [i64; 3], t: &mut [u8; 8]) -> i64 {
    match (v, hk) {
        (6, "ph") => {
            let mut w: Vec<p6::Warning> = Vec::new();
            let h = p6::PacketHeaderPacked::read_from(b).expect("size").unpack_warn(&mut w);
            *f = [h.flags as i64, h.ack as i64, h.num_chunks as i64];
            wmask(&w, wn)
        }
        (7, "ph") => {
            let mut w: Vec<p7::Warning> = Vec::new();
            let h = p7::PacketHeaderPacked::read_from(b).expect("size").unpack_warn(&mut w);
            *f = [h.flags as i64, h.ack as i64, h.num_chunks as i64];
            t[..4].copy_from_slice(&h.token.0);
            wmask(&w, wn)
        }
        (7, "phc") => {
            let mut w: Vec<p7::Warning> = Vec::new();
            let h = p7::PacketHeaderConnlessPacked::read_from(b).expect("size").unpack_warn(&mut w);
            *f = [h.flags as i64, h.version as i64, 0];
            t[..4].copy_from_slice(&h.token.0);
            t[4..8].copy_from_slice(&h.response_token.0);
            wmask(&w, wn)
        }
        (6, "ch") => { let (g, m) = c6::fast_un_ch(b, wn); *f = g; m }
        (6, "chv") => { let (g, m) = c6::fast_un_chv(b, wn); *f = g; m }
        (7, "ch") => { let (g, m) = c7::fast_un_ch(b, wn); *f = g; m }
        (7, "chv") => { let (g, m) = c7::fast_un_chv(b, wn); *f = g; m }
        _ => -2,
    }
}

fn fast_pack(v: u64, hk: &str, f: &[i64; 3], t: &[u8; 8], out: &mut [u8; 9]) -> usize {
    match (v, hk) {
        (6, "ph") => {
            let p = p6::PacketHeader { flags: f[0] as u8, ack: f[1] as u16, num_chunks: f[2] as u8 }.pack();
            out[..3].copy_from_slice(p.as_bytes());
            3
        }
        (7, "ph") => {
            let p = p7::PacketHeader { flags: f[0] as u8, ack: f[1] as u16, num_chunks: f[2] as u8, token: p7::Token([t[0], t[1], t[2], t[3]]) }.pack();
            out[..7].copy_from_slice(p.as_bytes());
            7
        }
        (7, "phc") => {
            let p = p7::PacketHeaderConnless {
                flags: f[0] as u8,
                version: f[1] as u8,
                token: p7::Token([t[0], t[1], t[2], t[3]]),
                response_token: p7::Token([t[4], t[5], t[6], t[7]]),
            }
            .pack();
            out[..9].copy_from_slice(p.as_bytes());
            9
        }
        (6, "ch") => c6::fast_pk_ch(f, out),
        (6, "chv") => c6::fast_pk_chv(f, out),
        (7, "ch") => c7::fast_pk_ch(f, out),
        (7, "chv") => c7::fast_pk_chv(f, out),
        _ => 0,
    }
}

/// Runs every tuple of the table's space through the real code. A tuple on which the code differs from the
/// table (or panics) and every `stride`-th other tuple is handed to `emit` as an ordinary hb / hf case (it is
/// then re-executed with full observation and judged by WireTrace.tla like every other event).
/// Returns (tuples, mismatches, panics, sampled).
fn sweep(tab: &Tab, emit: &mut dyn FnMut(&Value)) -> (u64, u64, u64, u64) {
    const MAX_REPORTED: u64 = 300;
    let n = tab.dom.len();
    let total: u64 = tab.dom.iter().map(|&d| d as u64).product();
    let stride = (total / 251).max(1) | 1;
    let last = tab.dom[n - 1];
    let outer: usize = tab.dom[..n - 1].iter().product();
    let (mut mism, mut panics, mut sampled, mut idx) = (0u64, 0u64, 0u64, 0u64);
    let m = tab.base.len();
    for o in 0..outer {
        // the leading coordinates of this row
        let mut x = vec![0usize; n];
        let mut r = o;
        for k in (0..n - 1).rev() {
            x[k] = r % tab.dom[k];
            r /= tab.dom[k];
        }
        // fast path: the whole row under one catch_unwind / watchdog
        let row = guarded(WD_MS * 4, || {
            let mut bad: Vec<usize> = Vec::new();
            let mut e = [0i64; 24];
            let mut g = [0i64; 24];
            let mut xx = x.clone();
            for y in 0..last {
                xx[n - 1] = y;
                tab.expected(&xx, &mut e);
                let gn = tab.real(&xx, &mut g);
                if gn != m || e[..m] != g[..m] {
                    bad.push(y);
                }
            }
            bad
        });
        let bad: Vec<usize> = match row {
            Ok(b) => b,
            Err(_) => {
                // some tuple of the row panics: find out which, one by one
                let mut b = Vec::new();
                for y in 0..last {
                    let mut xx = x.clone();
                    xx[n - 1] = y;
                    let one = guarded(WD_MS, || {
                        let mut e = [0i64; 24];
                        let mut g = [0i64; 24];
                        tab.expected(&xx, &mut e);
                        let gn = tab.real(&xx, &mut g);
                        gn == m && e[..m] == g[..m]
                    });
                    match one {
                        Ok(true) => {}
                        Ok(false) => b.push(y),
                        Err(_) => {
                            panics += 1;
                            b.push(y);
                        }
                    }
                }
                b
            }
        };
        for y in 0..last {
            let is_bad = bad.binary_search(&y).is_ok();
            if is_bad {
                mism += 1;
            }
            if (is_bad && mism <= MAX_REPORTED) || (!is_bad && idx % stride == 0) {
                x[n - 1] = y;
                if !is_bad {
                    sampled += 1;
                }
                emit(&tab.case(&x));
            }
            idx += 1;
        }
    }
    (total, mism, panics, sampled)
}

// ---------------------------------------------------------------- packets <-> JSON

/// Projects a 0.6 packet; `slices` receives every slice the value holds.
fn pkt6_json<'a>(p: &p6::Packet<'a>, slices: &mut Vec<&'a [u8]>) -> Value {
    match *p {
        p6::Packet::Connless(d) => {
            slices.push(d);
            json!({"t": "connless", "data": bj(d)})
        }
        p6::Packet::Connected(ref c) => {
            let token = c.token.map(|t| bj(&t.0)).unwrap_or_else(|| json!([]));
            match c.type_ {
                p6::ConnectedPacketType::Chunks(rr, nc, d) => {
                    slices.push(d);
                    json!({"t": "chunks", "ack": c.ack, "token": token, "rr": rr, "nc": nc, "data": bj(d)})
                }
                p6::ConnectedPacketType::Control(ctrl) => {
                    let (name, reason): (&str, &'a [u8]) = match ctrl {
                        p6::ControlPacket::KeepAlive => ("keepalive", &[]),
                        p6::ControlPacket::Connect => ("connect", &[]),
                        p6::ControlPacket::ConnectAccept => ("connectaccept", &[]),
                        p6::ControlPacket::Accept => ("accept", &[]),
                        p6::ControlPacket::Close(r) => ("close", r),
                    };
                    slices.push(reason);
                    json!({"t": "ctrl", "ack": c.ack, "token": token, "c": name, "reason": bj(reason)})
                }
            }
        }
    }
}

fn pkt7_json<'a>(p: &p7::Packet<'a>, slices: &mut Vec<&'a [u8]>) -> Value {
    match *p {
        p7::Packet::Connless(ref c) => {
            slices.push(c.payload);
            json!({"t": "connless", "token": bj(&c.token.0), "rtoken": bj(&c.response_token.0), "data": bj(c.payload)})
        }
        p7::Packet::Connected(ref c) => {
            let token = bj(&c.token.0);
            match c.type_ {
                p7::ConnectedPacketType::Chunks(rr, nc, d) => {
                    slices.push(d);
                    json!({"t": "chunks", "ack": c.ack, "token": token, "rr": rr, "nc": nc, "data": bj(d)})
                }
                p7::ConnectedPacketType::Control(ctrl) => {
                    let (name, reason, rt): (&str, &'a [u8], Value) = match ctrl {
                        p7::ControlPacket::KeepAlive => ("keepalive", &[], json!([])),
                        p7::ControlPacket::Connect(t) => ("connect", &[], bj(&t.0)),
                        p7::ControlPacket::Accept => ("accept", &[], json!([])),
                        p7::ControlPacket::Close(r) => ("close", r, json!([])),
                        p7::ControlPacket::Token(t) => ("token", &[], bj(&t.0)),
                    };
                    slices.push(reason);
                    json!({"t": "ctrl", "ack": c.ack, "token": token, "c": name, "reason": bj(reason), "rt": rt})
                }
            }
        }
    }
}

/// Owned storage for a packet value given as JSON.
struct Owned {
    t: String,
    ack: u16,
    token: Vec<u8>,
    rtoken: Vec<u8>,
    c: String,
    reason: Vec<u8>,
    rt: Vec<u8>,
    rr: bool,
    nc: u8,
    data: Vec<u8>,
}

impl Owned {
    fn from_json(p: &Value) -> Owned {
        Owned {
            t: p["t"].as_str().unwrap_or("").to_string(),
            ack: p["ack"].as_u64().unwrap_or(0) as u16,
            token: jb(&p["token"]),
            rtoken: jb(&p["rtoken"]),
            c: p["c"].as_str().unwrap_or("").to_string(),
            reason: jb(&p["reason"]),
            rt: jb(&p["rt"]),
            rr: p["rr"].as_bool().unwrap_or(false),
            nc: p["nc"].as_u64().unwrap_or(0) as u8,
            data: jb(&p["data"]),
        }
    }
    fn t4(b: &[u8]) -> [u8; 4] {
        let mut t = [0u8; 4];
        for (i, x) in b.iter().take(4).enumerate() {
            t[i] = *x;
        }
        t
    }
    fn packet6(&self) -> Option<p6::Packet<'_>> {
        let token = if self.token.len() == 4 { Some(p6::Token(Self::t4(&self.token))) } else { None };
        Some(match self.t.as_str() {
            "connless" => p6::Packet::Connless(&self.data),
            "chunks" => p6::Packet::Connected(p6::ConnectedPacket {
                ack: self.ack,
                token,
                type_: p6::ConnectedPacketType::Chunks(self.rr, self.nc, &self.data),
            }),
            "ctrl" => {
                let c = match self.c.as_str() {
                    "keepalive" => p6::ControlPacket::KeepAlive,
                    "connect" => p6::ControlPacket::Connect,
                    "connectaccept" => p6::ControlPacket::ConnectAccept,
                    "accept" => p6::ControlPacket::Accept,
                    "close" => p6::ControlPacket::Close(&self.reason),
                    _ => return None,
                };
                p6::Packet::Connected(p6::ConnectedPacket { ack: self.ack, token, type_: p6::ConnectedPacketType::Control(c) })
            }
            _ => return None,
        })
    }
    fn packet7(&self) -> Option<p7::Packet<'_>> {
        let token = p7::Token(Self::t4(&self.token));
        Some(match self.t.as_str() {
            "connless" => p7::Packet::Connless(p7::ConnlessPacket {
                payload: &self.data,
                token,
                response_token: p7::Token(Self::t4(&self.rtoken)),
            }),
            "chunks" => p7::Packet::Connected(p7::ConnectedPacket {
                ack: self.ack,
                token,
                type_: p7::ConnectedPacketType::Chunks(self.rr, self.nc, &self.data),
            }),
            "ctrl" => {
                let c = match self.c.as_str() {
                    "keepalive" => p7::ControlPacket::KeepAlive,
                    "connect" => p7::ControlPacket::Connect(p7::Token(Self::t4(&self.rt))),
                    "accept" => p7::ControlPacket::Accept,
                    "close" => p7::ControlPacket::Close(&self.reason),
                    "token" => p7::ControlPacket::Token(p7::Token(Self::t4(&self.rt))),
                    _ => return None,
                };
                p7::Packet::Connected(p7::ConnectedPacket { ack: self.ack, token, type_: p7::ConnectedPacketType::Control(c) })
            }
            _ => return None,
        })
    }
}

// ---------------------------------------------------------------- the reader, observed

fn hint_of(h: &str) -> Option<bool> {
    match h {
        "true" => Some(true),
        "false" => Some(false),
        _ => None,
    }
}

/// One observation of the reader: every public entry point on the same datagram.
fn read_obj(v: u64, bytes: &[u8], hint: &str, cap: usize) -> Map<String, Value> {
    let hs = if v == 6 { p6::HEADER_SIZE } else { p7::HEADER_SIZE };
    // the datagram in an allocation of exactly its size
    let input: Box<[u8]> = bytes.to_vec().into_boxed_slice();
    let input: &[u8] = &input;
    let in_range = range_of(input);
    let mut canary = true;

    // decompress_if_needed
    let mut a1 = Arena::new(cap);
    let din_r = guarded(WD_MS, || {
        if v == 6 {
            p6::Packet::decompress_if_needed(input, a1.slice()).map_err(|e| variant(&e))
        } else {
            p7::Packet::decompress_if_needed(input, a1.slice()).map_err(|e| variant(&e))
        }
    });
    canary &= a1.canary_ok();

    // the codec on the body, with the capacity the reader has
    let mut d = json!({"k": "none", "data": []});
    let mut dlen = 0usize;
    let compressed = !matches!(din_r, Ok(Ok(false)));
    if compressed && input.len() >= hs && cap >= hs {
        let mut a2 = Arena::new(cap - hs);
        let r = guarded(WD_MS, || HUFFMAN.decompress(&input[hs..], a2.slice()).map(|s| s.to_vec()).map_err(|e| variant(&e)));
        d = match r {
            Ok(Ok(data)) => {
                dlen = data.len();
                json!({"k": "ok", "data": bj(&data)})
            }
            Ok(Err(e)) => json!({"k": "err", "data": [], "e": e}),
            Err(m) => json!({"k": "panic", "data": [], "msg": m}),
        };
        canary &= a2.canary_ok();
    }
    let din = match din_r {
        Ok(Ok(false)) => json!({"r": "false", "buf": []}),
        Ok(Ok(true)) => json!({"r": "true", "buf": bj(a1.content(hs + dlen))}),
        Ok(Err(e)) => json!({"r": "err", "buf": [], "e": e}),
        Err(m) => {
            let mut p = panic_json(&m);
            p["buf"] = json!([]);
            p
        }
    };

    // Packet::read, then ChunksIter on what it returned
    let mut a3 = Arena::new(cap);
    let ranges = [in_range, a3.range()];
    let mut inb = true;
    let mut ci = skip();
    let out;
    {
        let buf = a3.slice();
        if v == 6 {
            let mut w: Vec<p6::Warning> = Vec::new();
            let r = guarded(WD_MS, || p6::Packet::read(&mut w, input, hint_of(hint), buf));
            out = match r {
                Err(m) => panic_json(&m),
                Ok(Err(e)) => json!({"r": "err", "e": format!("{:?}", e)}),
                Ok(Ok(pkt)) => {
                    let mut slices = Vec::new();
                    let pj = pkt6_json(&pkt, &mut slices);
                    inb &= slices.iter().all(|s| inside(s, &ranges));
                    if let p6::Packet::Connected(p6::ConnectedPacket { type_: p6::ConnectedPacketType::Chunks(_, nc, data), .. }) = pkt {
                        let (c, i) = c6::iter_chunks(data, nc, &ranges);
                        ci = c;
                        inb &= i;
                    }
                    json!({"r": "ok", "p": pj, "w": names(&w)})
                }
            };
        } else {
            let mut w: Vec<p7::Warning> = Vec::new();
            let r = guarded(WD_MS, || p7::Packet::read(&mut w, input, buf));
            out = match r {
                Err(m) => panic_json(&m),
                Ok(Err(e)) => json!({"r": "err", "e": format!("{:?}", e)}),
                Ok(Ok(pkt)) => {
                    let mut slices = Vec::new();
                    let pj = pkt7_json(&pkt, &mut slices);
                    inb &= slices.iter().all(|s| inside(s, &ranges));
                    if let p7::Packet::Connected(p7::ConnectedPacket { type_: p7::ConnectedPacketType::Chunks(_, nc, data), .. }) = pkt {
                        let (c, i) = c7::iter_chunks(data, nc, &ranges);
                        ci = c;
                        inb &= i;
                    }
                    json!({"r": "ok", "p": pj, "w": names(&w)})
                }
            };
        }
    }
    canary &= a3.canary_ok();

    // read_panic_on_decompression: only for datagrams the library says are not compressed
    let rpod = if compressed {
        skip()
    } else if v == 6 {
        let mut w: Vec<p6::Warning> = Vec::new();
        match guarded(WD_MS, || p6::Packet::read_panic_on_decompression(&mut w, input, hint_of(hint))) {
            Err(m) => panic_json(&m),
            Ok(Err(e)) => json!({"r": "err", "e": format!("{:?}", e)}),
            Ok(Ok(pkt)) => {
                let mut slices = Vec::new();
                let pj = pkt6_json(&pkt, &mut slices);
                inb &= slices.iter().all(|s| inside(s, &[in_range]));
                json!({"r": "ok", "p": pj, "w": names(&w)})
            }
        }
    } else {
        let mut w: Vec<p7::Warning> = Vec::new();
        match guarded(WD_MS, || p7::Packet::read_panic_on_decompression(&mut w, input)) {
            Err(m) => panic_json(&m),
            Ok(Err(e)) => json!({"r": "err", "e": format!("{:?}", e)}),
            Ok(Ok(pkt)) => {
                let mut slices = Vec::new();
                let pj = pkt7_json(&pkt, &mut slices);
                inb &= slices.iter().all(|s| inside(s, &[in_range]));
                json!({"r": "ok", "p": pj, "w": names(&w)})
            }
        }
    };

    let init = if v == 6 {
        match guarded(WD_MS, || p6::Packet::is_initial(input)) {
            Ok(b) => json!({"r": "ok", "v": b}),
            Err(m) => panic_json(&m),
        }
    } else {
        skip()
    };

    let mut o = Map::new();
    o.insert("bytes".into(), bj(input));
    o.insert("hint".into(), Value::from(hint));
    o.insert("cap".into(), Value::from(cap));
    o.insert("din".into(), din);
    o.insert("d".into(), d);
    o.insert("out".into(), out);
    o.insert("rpod".into(), rpod);
    o.insert("init".into(), init);
    o.insert("ci".into(), ci);
    o.insert("inb".into(), Value::from(inb));
    o.insert("canary".into(), Value::from(canary));
    o
}

// ---------------------------------------------------------------- write -> read

fn compress_sample(input: &[u8]) -> Value {
    // the same call the writer makes: Huffman into a 2048-byte ArrayVec
    let mut buf: arrayvec::ArrayVec<[u8; 2048]> = arrayvec::ArrayVec::new();
    let out = match guarded(WD_MS, || HUFFMAN.compress(input, &mut buf).map(|s| s.to_vec()).ok()) {
        Ok(Some(z)) => json!({"ok": true, "data": bj(&z)}),
        Ok(None) => json!({"ok": false, "data": []}),
        Err(m) => json!({"ok": false, "data": [], "panic": m}),
    };
    json!({"in": bj(input), "out": out})
}

/// Writes the packet value `pj` with the real writer into a buffer of `cap` bytes and reads the
/// datagram back with the true token mode (scratch of `rcap` bytes).
fn rt_block(v: u64, pj: &Value, cap: usize, rcap: usize, same_hint: Option<&str>) -> Map<String, Value> {
    let o = Owned::from_json(pj);
    let mut zs = Vec::new();
    if o.t == "chunks" {
        zs.push(compress_sample(&o.data));
        if v == 6 && !o.token.is_empty() {
            let mut both = o.data.clone();
            both.extend_from_slice(&o.token);
            zs.push(compress_sample(&both));
        }
    }
    let mut arena = Arena::new(cap);
    let r = guarded(WD_MS, || {
        if v == 6 {
            o.packet6().map(|p| p.write(arena.slice()).map(|s| s.to_vec()).map_err(|e| variant(&e)))
        } else {
            o.packet7().map(|p| p.write(arena.slice()).map(|s| s.to_vec()).map_err(|e| variant(&e)))
        }
    });
    let wcanary = arena.canary_ok();
    let mut rd = Value::Object({
        let mut m = Map::new();
        m.insert("r".into(), Value::from("skip"));
        m
    });
    let mut rd2 = skip();
    let wr = match r {
        Err(m) => panic_json(&m),
        Ok(None) => json!({"r": "badcase"}),
        Ok(Some(Err(e))) => json!({"r": "err", "e": e}),
        Ok(Some(Ok(bytes))) => {
            let hint = if v == 7 {
                "none"
            } else if o.t != "connless" && o.token.len() == 4 {
                "true"
            } else {
                "false"
            };
            rd = Value::Object(read_obj(v, &bytes, hint, rcap));
            // the reader that accepted the value had another hint than the true token mode (no hint):
            // the written datagram is read back under that hint as well
            if let Some(h) = same_hint {
                if h != hint {
                    rd2 = Value::Object(read_obj(v, &bytes, h, rcap));
                }
            }
            json!({"r": "ok", "bytes": bj(&bytes)})
        }
    };
    let mut b = Map::new();
    b.insert("r".into(), Value::from("ok"));
    b.insert("p".into(), pj.clone());
    b.insert("cap".into(), Value::from(cap));
    b.insert("zs".into(), Value::Array(zs));
    b.insert("wr".into(), wr);
    b.insert("wcanary".into(), Value::from(wcanary));
    b.insert("rd".into(), rd);
    b.insert("rd2".into(), rd2);
    b
}

// ---------------------------------------------------------------- cases -> events

fn exec_case(case: &Value) -> Value {
    let k = case["k"].as_str().unwrap_or("");
    let v = case["v"].as_u64().unwrap_or(6);
    let mut ev = Map::new();
    ev.insert("k".into(), Value::from(k));
    ev.insert("v".into(), Value::from(v));
    match k {
        "hf" => {
            let hk = case["hk"].as_str().unwrap_or("");
            ev.insert("hk".into(), Value::from(hk));
            ev.insert("h".into(), case["h"].clone());
            let pk = pack_any(v, hk, &case["h"]);
            let un = if pk["r"] == "ok" { unpack_any(v, hk, &jb(&pk["bytes"])) } else { skip() };
            ev.insert("pk".into(), pk);
            ev.insert("un".into(), un);
        }
        "hb" => {
            let hk = case["hk"].as_str().unwrap_or("");
            ev.insert("hk".into(), Value::from(hk));
            ev.insert("b".into(), case["b"].clone());
            let un = unpack_any(v, hk, &jb(&case["b"]));
            let pk = if un["r"] == "ok" { pack_any(v, hk, &un["h"]) } else { skip() };
            ev.insert("un".into(), un);
            ev.insert("pk".into(), pk);
        }
        "rt" => {
            let hascl = case["hascl"].as_bool().unwrap_or(false);
            let cap = case["cap"].as_u64().map(|c| c as usize).unwrap_or(DEFAULT_CAP);
            let rcap = case["rcap"].as_u64().map(|c| c as usize).unwrap_or(DEFAULT_CAP);
            let mut p = case["p"].clone();
            ev.insert("hascl".into(), Value::from(hascl));
            ev.insert("cl".into(), if hascl { case["cl"].clone() } else { json!([]) });
            if hascl {
                // the chunk area is produced by the library's own write_chunk
                let built = if v == 6 { c6::build_area(&case["cl"]) } else { c7::build_area(&case["cl"]) };
                match built {
                    Ok(area) => p["data"] = bj(&area),
                    Err(m) => {
                        ev.insert("built".into(), panic_json(&m));
                    }
                }
            }
            for (key, val) in rt_block(v, &p, cap, rcap, None) {
                ev.insert(key, val);
            }
        }
        "rd" => {
            let cap = case["cap"].as_u64().map(|c| c as usize).unwrap_or(DEFAULT_CAP);
            let hint = case["hint"].as_str().unwrap_or("none");
            let ro = read_obj(v, &jb(&case["bytes"]), hint, cap);
            let rw = if ro["out"]["r"] == "ok" {
                // the accepted value is written out and read back by a reader with the same scratch size
                Value::Object(rt_block(v, &ro["out"]["p"], DEFAULT_CAP, cap, Some(hint)))
            } else {
                skip()
            };
            for (key, val) in ro {
                ev.insert(key, val);
            }
            ev.insert("rw".into(), rw);
        }
        "wc" => {
            // one packet value written into buffers of many capacities
            let p = case["p"].clone();
            let o = Owned::from_json(&p);
            let mut zs = Vec::new();
            if o.t == "chunks" {
                zs.push(compress_sample(&o.data));
                if v == 6 && !o.token.is_empty() {
                    let mut both = o.data.clone();
                    both.extend_from_slice(&o.token);
                    zs.push(compress_sample(&both));
                }
            }
            let write_into = |cap: usize| -> (Value, Option<Vec<u8>>, bool) {
                let mut arena = Arena::new(cap);
                let r = guarded(WD_MS, || {
                    if v == 6 {
                        o.packet6().map(|p| p.write(arena.slice()).map(|s| s.to_vec()).map_err(|e| variant(&e)))
                    } else {
                        o.packet7().map(|p| p.write(arena.slice()).map(|s| s.to_vec()).map_err(|e| variant(&e)))
                    }
                });
                let canary = arena.canary_ok();
                match r {
                    Err(m) => (panic_json(&m), None, canary),
                    Ok(None) => (json!({"r": "badcase"}), None, canary),
                    Ok(Some(Err(e))) => (json!({"r": "err", "e": e}), None, canary),
                    Ok(Some(Ok(b))) => (json!({"r": "ok"}), Some(b), canary),
                }
            };
            let (mut rf, rbytes, _) = write_into(DEFAULT_CAP);
            rf["bytes"] = bj(rbytes.as_deref().unwrap_or(&[]));
            let mut ws = Vec::new();
            for c in case["caps"].as_array().map(|a| a.as_slice()).unwrap_or(&[]) {
                let cap = c.as_u64().unwrap_or(0) as usize;
                let (mut w, b, canary) = write_into(cap);
                w["cap"] = Value::from(cap);
                w["canary"] = Value::from(canary);
                w["n"] = Value::from(b.as_ref().map(|x| x.len()).unwrap_or(0));
                w["same"] = Value::from(b.is_some() && b == rbytes);
                if w.get("e").is_none() {
                    w["e"] = Value::from("");
                }
                ws.push(w);
            }
            ev.insert("p".into(), p);
            ev.insert("zs".into(), Value::Array(zs));
            ev.insert("ref".into(), rf);
            ev.insert("ws".into(), Value::Array(ws));
        }
        "it" => {
            let data: Box<[u8]> = jb(&case["data"]).into_boxed_slice();
            let nc = case["nc"].as_u64().unwrap_or(0) as u8;
            let st = if v == 6 { c6::iter_steps(&data, nc) } else { c7::iter_steps(&data, nc) };
            let (ci, inb2) = if v == 6 { c6::iter_chunks(&data, nc, &[range_of(&data)]) } else { c7::iter_chunks(&data, nc, &[range_of(&data)]) };
            ev.insert("nc".into(), Value::from(nc));
            ev.insert("data".into(), bj(&data));
            let inb = st["inb"].as_bool().unwrap_or(true) && inb2;
            if let Value::Object(m) = st {
                for (key, val) in m {
                    ev.insert(key, val);
                }
            }
            for key in ["steps", "after"] {
                if !ev.contains_key(key) {
                    ev.insert(key.into(), json!([]));
                }
            }
            if !ev.contains_key("end") {
                ev.insert("end".into(), json!({"pos": 0, "rem": 0, "w": [], "pos_after": 0}));
            }
            ev.insert("inb".into(), Value::from(inb));
            ev.insert("ci".into(), ci);
        }
        _ => {
            ev.insert("k".into(), Value::from("badcase"));
        }
    }
    Value::Object(ev)
}

// ---------------------------------------------------------------- direction B: seeded generators

struct Gen {
    rng: StdRng,
}

impl Gen {
    fn bytes_kind(&mut self, n: usize) -> Vec<u8> {
        // from highly compressible to incompressible
        match self.rng.gen_range(0..6) {
            0 => vec![0u8; n],
            1 => {
                let b = self.rng.gen::<u8>();
                vec![b; n]
            }
            2 => {
                let pat: Vec<u8> = (0..self.rng.gen_range(1..5)).map(|_| self.rng.gen::<u8>() & 0x0f).collect();
                (0..n).map(|i| pat[i % pat.len()]).collect()
            }
            3 => (0..n).map(|_| if self.rng.gen_bool(0.8) { 0 } else { self.rng.gen::<u8>() }).collect(),
            4 => (0..n).map(|_| b"etaoin shrdlu\0\x01\x02\x40\x80\xff"[self.rng.gen_range(0..19)]).collect(),
            _ => (0..n).map(|_| self.rng.gen::<u8>()).collect(),
        }
    }
    fn len(&mut self, max: usize) -> usize {
        // boundaries often, otherwise skewed to small
        let picks = [0, 1, 2, 3, 4, 5, 15, 16, 17, 63, 64, 65, 127, 128, 255, 256, 1023, 1024];
        match self.rng.gen_range(0..10) {
            0..=2 => (*picks.get(self.rng.gen_range(0..picks.len())).unwrap()).min(max),
            3 => max,
            4 => max.saturating_sub(self.rng.gen_range(0..4)),
            5..=7 => self.rng.gen_range(0..=max.min(40)),
            _ => self.rng.gen_range(0..=max),
        }
    }
    fn token(&mut self) -> Vec<u8> {
        match self.rng.gen_range(0..8) {
            0 => vec![0xff; 4],
            1 => vec![0; 4],
            2 => b"TKEN".to_vec(),
            _ => (0..4).map(|_| self.rng.gen::<u8>()).collect(),
        }
    }
    fn ack(&mut self) -> u16 {
        match self.rng.gen_range(0..4) {
            0 => [0u16, 1, 255, 256, 511, 512, 1022, 1023][self.rng.gen_range(0..8)],
            _ => self.rng.gen_range(0..1024),
        }
    }
    fn reason(&mut self) -> Vec<u8> {
        let n = match self.rng.gen_range(0..6) {
            0 => 0,
            1 => 127,
            2 => 126,
            3 => 3,
            _ => self.rng.gen_range(0..=127),
        };
        let mut r = self.bytes_kind(n);
        for b in &mut r {
            if *b == 0 {
                *b = b'x';
            }
        }
        r
    }
    /// A chunk list whose area fits `budget` bytes.
    fn chunk_list(&mut self, v: u64, budget: usize) -> Vec<Value> {
        let max_size = if v == 6 { 1023 } else { 4095 };
        let mut left = budget;
        let mut cl = Vec::new();
        let n = match self.rng.gen_range(0..6) {
            0 => 0,
            1 => 1,
            2 => self.rng.gen_range(2..6),
            3 => 255,
            _ => self.rng.gen_range(1..40),
        };
        for _ in 0..n {
            let vital = self.rng.gen_bool(0.6);
            let hs = if vital { 3 } else { 2 };
            if left < hs || cl.len() == 255 {
                break;
            }
            let m = (left - hs).min(max_size);
            let size = if n > 50 { self.rng.gen_range(0..=m.min(3)) } else { self.len(m) };
            let data = self.bytes_kind(size);
            left -= hs + size;
            cl.push(json!({"vital": vital, "seq": if vital { self.ack() } else { 0 }, "resend": vital && self.rng.gen_bool(0.3), "data": bj(&data)}));
        }
        cl
    }
    /// A packet value inside the writer's domain.
    fn packet(&mut self, v: u64) -> Value {
        let ack = self.ack();
        let token = if v == 7 || self.rng.gen_bool(0.6) { self.token() } else { vec![] };
        let body_max = if v == 6 { 1397 - token.len() } else { 1393 };
        match self.rng.gen_range(0..10) {
            0 => {
                let n = self.len(1390);
                let data = self.bytes_kind(n);
                if v == 6 {
                    json!({"k": "rt", "v": 6, "hascl": false, "cl": [], "p": {"t": "connless", "data": bj(&data)}})
                } else {
                    json!({"k": "rt", "v": 7, "hascl": false, "cl": [], "p": {"t": "connless", "token": bj(&token), "rtoken": bj(&self.token()), "data": bj(&data)}})
                }
            }
            1 | 2 => {
                let names6 = ["keepalive", "connect", "connectaccept", "accept", "close"];
                let names7 = ["keepalive", "connect", "accept", "close", "token"];
                let c = if v == 6 { names6[self.rng.gen_range(0..5)] } else { names7[self.rng.gen_range(0..5)] };
                let reason = if c == "close" { self.reason() } else { vec![] };
                if v == 6 {
                    json!({"k": "rt", "v": 6, "hascl": false, "cl": [], "p": {"t": "ctrl", "ack": ack, "token": bj(&token), "c": c, "reason": bj(&reason)}})
                } else {
                    let mut rt = if c == "connect" || c == "token" { self.token() } else { vec![] };
                    if rt == [0xff; 4] {
                        rt = vec![1, 2, 3, 4];
                    }
                    json!({"k": "rt", "v": 7, "hascl": false, "cl": [], "p": {"t": "ctrl", "ack": ack, "token": bj(&token), "c": c, "reason": bj(&reason), "rt": bj(&rt)}})
                }
            }
            3 => {
                // raw chunk area, arbitrary count
                let n = self.len(body_max);
                let data = self.bytes_kind(n);
                let nc = [0u8, 1, 2, 255][self.rng.gen_range(0..4)];
                json!({"k": "rt", "v": v, "hascl": false, "cl": [], "p": {"t": "chunks", "ack": ack, "token": bj(&token), "rr": self.rng.gen_bool(0.3), "nc": nc, "data": bj(&data)}})
            }
            _ => {
                let budget = if self.rng.gen_bool(0.3) { body_max } else { self.len(body_max) };
                let cl = self.chunk_list(v, budget);
                let nc = cl.len();
                json!({"k": "rt", "v": v, "hascl": true, "cl": cl, "p": {"t": "chunks", "ack": ack, "token": bj(&token), "rr": self.rng.gen_bool(0.3), "nc": nc, "data": []}})
            }
        }
    }
    fn hint(&mut self, v: u64) -> &'static str {
        if v == 7 {
            "none"
        } else {
            ["none", "true", "false"][self.rng.gen_range(0..3)]
        }
    }
    fn cap(&mut self) -> usize {
        [1400usize, 1400, 2048, 4096][self.rng.gen_range(0..4)]
    }
}

/// The byte values with the longest Huffman codes (anti-compressible content). The check passes them in
/// VH_LONGCODES, taken from spec/huffman/HuffTable.tla; without it they are derived from the library's
/// `compressed_len`.
fn long_code_bytes() -> Vec<u8> {
    if let Ok(s) = std::env::var("VH_LONGCODES") {
        let v: Vec<u8> = s.split(',').filter_map(|x| x.trim().parse().ok()).collect();
        if !v.is_empty() {
            return v;
        }
    }
    let mut all: Vec<(usize, u8)> = (0..=255u8).map(|b| (HUFFMAN.compressed_len(&[b; 64]), b)).collect();
    all.sort_by(|a, b| b.cmp(a));
    all.iter().take(4).map(|x| x.1).collect()
}

/// Content classes from highly compressible to anti-compressible.
fn filler(g: &mut Gen, cls: usize, n: usize, long: &[u8]) -> Vec<u8> {
    match cls {
        0 => vec![0u8; n],
        1 => (0..n).map(|i| if (i * 7 + i / 5) % 3 == 0 { 1 } else { 0 }).collect(),
        2 => (0..n).map(|_| g.rng.gen::<u8>()).collect(),
        3 => vec![long[0]; n],
        _ => (0..n).map(|i| long[i % long.len()]).collect(),
    }
}

/// The datagram the real writer produces for a generated packet case (None if it refuses).
fn written(case: &Value) -> Option<Vec<u8>> {
    let ev = exec_case(case);
    if ev["wr"]["r"] == "ok" {
        Some(jb(&ev["wr"]["bytes"]))
    } else {
        None
    }
}

fn rd_case(v: u64, bytes: &[u8], hint: &str, cap: usize) -> Value {
    json!({"k": "rd", "v": v, "hint": hint, "cap": cap, "bytes": bj(bytes)})
}

fn drive(seed: u64, tier: &str, parts: &str, emit_all: &mut dyn FnMut(&Value)) {
    let c05 = parts != "c06";
    let c06 = parts != "c05";
    fn emit_if(on: bool, e: &mut dyn FnMut(&Value), c: &Value) {
        if on {
            e(c);
        }
    }
    let mut g = Gen { rng: StdRng::seed_from_u64(seed) };
    let thorough = tier == "thorough";
    let long = long_code_bytes();
    let n_rt = if thorough { 1500 } else { 220 };
    let n_garbage = if thorough { 1500 } else { 250 };
    let n_mut = if thorough { 3000 } else { 400 };
    let n_hdr = if thorough { 20000 } else { 2000 };

    // (1) write -> read of random packets up to the size limit
    let mut valid: Vec<(u64, Vec<u8>)> = Vec::new();
    for i in 0..n_rt {
        let v = if i % 2 == 0 { 6 } else { 7 };
        let mut case = g.packet(v);
        case["rcap"] = Value::from(g.cap());
        emit_if(c05, emit_all, &case);
        if valid.len() < 400 {
            if let Some(b) = written(&case) {
                valid.push((v, b));
            }
        }
    }
    // maximal packets of each kind, each content class
    for v in [6u64, 7] {
        for kind in 0..4 {
            let body = if v == 6 { 1397 - 4 } else { 1393 };
            let data = match kind {
                0 => vec![0u8; body],
                1 => (0..body).map(|_| g.rng.gen::<u8>()).collect(),
                2 => (0..body).map(|i| (i % 7) as u8).collect(),
                _ => vec![0xffu8; body],
            };
            emit_if(c05, emit_all, &json!({"k": "rt", "v": v, "hascl": false, "cl": [], "p": {"t": "chunks", "ack": 1023, "token": [9, 8, 7, 6], "rr": true, "nc": 255, "data": bj(&data)}}));
            let c = &data[..1390];
            if v == 6 {
                emit_if(c05, emit_all, &json!({"k": "rt", "v": 6, "hascl": false, "cl": [], "p": {"t": "connless", "data": bj(c)}}));
            } else {
                emit_if(c05, emit_all, &json!({"k": "rt", "v": 7, "hascl": false, "cl": [], "p": {"t": "connless", "token": [1, 2, 3, 4], "rtoken": [5, 6, 7, 8], "data": bj(c)}}));
            }
        }
        // payload lengths max-3 .. max for each content class (all-zero, two-symbol, incompressible),
        // token present / absent, each read with a scratch buffer of exactly the documented minimum
        // (1400), one byte more, and a generous one: the reader must not depend on the scratch size
        let toks: &[&[u8]] = if v == 6 { &[&[], &[9, 8, 7, 6]] } else { &[&[9, 8, 7, 6]] };
        for tok in toks {
            let max = if v == 6 { 1397 - tok.len() } else { 1393 };
            for n in (max - 3)..=max {
                for cls in 0..5 {
                    // 3, 4: the byte values with the longest Huffman codes -- the compressed form does not
                    // fit the writer's internal 2048-byte buffer
                    let data = filler(&mut g, cls, n, &long);
                    for rcap in if cls < 3 { &[1400usize, 1401, 2048][..] } else { &[1400usize][..] } {
                        let rcap = *rcap;
                        emit_if(c05, emit_all, &json!({"k": "rt", "v": v, "rcap": rcap, "hascl": false, "cl": [], "p": {"t": "chunks", "ack": 512, "token": bj(tok), "rr": false, "nc": 3, "data": bj(&data)}}));
                    }
                }
            }
        }
        // small write buffers: the writer must refuse with a capacity error, not overrun
        for cap in [0usize, 1, 2, 3, 6, 7, 9, 10, 100] {
            emit_if(c05, emit_all, &json!({"k": "rt", "v": v, "cap": cap, "hascl": false, "cl": [], "p": {"t": "chunks", "ack": 5, "token": [9, 8, 7, 6], "rr": false, "nc": 1, "data": bj(&vec![7u8; 60])}}));
        }
    }

    // (2) random garbage, 0..3000 bytes
    for i in 0..n_garbage {
        let v = if i % 2 == 0 { 6 } else { 7 };
        let n = match g.rng.gen_range(0..10) {
            0..=3 => g.rng.gen_range(0..24),
            4..=6 => g.rng.gen_range(0..300),
            7 | 8 => g.rng.gen_range(0..1401),
            _ => g.rng.gen_range(1390..3001),
        };
        let mut b = g.bytes_kind(n);
        if !b.is_empty() && g.rng.gen_bool(0.7) {
            // make the flag nibble interesting more often than uniform bytes would
            b[0] = if v == 6 { g.rng.gen_range(0..16u8) << 4 | (g.rng.gen::<u8>() & 3) } else { g.rng.gen_range(0..16u8) << 2 | (g.rng.gen::<u8>() & 3) };
        }
        let h = g.hint(v);
        let cap = g.cap();
        emit_if(c06, emit_all, &rd_case(v, &b, h, cap));
    }

    // (3) structured hostile input derived from valid datagrams
    let nvalid = valid.len();
    for i in 0..n_mut {
        let (v, ref b) = valid[i % nvalid];
        let mut m = b.clone();
        match g.rng.gen_range(0..6) {
            0 => {
                // single-byte corruption, preferably in the first 16 bytes
                if !m.is_empty() {
                    let lim = if g.rng.gen_bool(0.7) { m.len().min(16) } else { m.len() };
                    let at = g.rng.gen_range(0..lim);
                    m[at] = g.rng.gen::<u8>();
                }
            }
            1 => {
                for _ in 0..2 {
                    if !m.is_empty() {
                        let lim = m.len().min(16);
                        let at = g.rng.gen_range(0..lim);
                        m[at] ^= 1 << g.rng.gen_range(0..8);
                    }
                }
            }
            2 => {
                let n = g.rng.gen_range(0..=m.len());
                m.truncate(n);
            }
            3 => {
                let extra = g.len(40);
                let e = g.bytes_kind(extra);
                m.extend_from_slice(&e);
            }
            4 => {
                // set the compression flag on an uncompressed datagram / clear it on a compressed one
                if !m.is_empty() {
                    m[0] ^= if v == 6 { 0x80 } else { 0x10 };
                }
            }
            _ => {
                // other flag bits
                if !m.is_empty() {
                    m[0] ^= 1 << g.rng.gen_range(0..8);
                }
            }
        }
        let h = g.hint(v);
        let cap = g.cap();
        emit_if(c06, emit_all, &rd_case(v, &m, h, cap));
    }

    // (4) truncation at every position of a few datagrams (all of them short enough in quick)
    let mut done = 0;
    for (v, b) in valid.iter() {
        let limit = if thorough { 1400 } else { 120 };
        if b.len() > limit || b.len() < 8 {
            continue;
        }
        for n in 0..b.len() {
            emit_if(c06, emit_all, &rd_case(*v, &b[..n], g.hint(*v), 2048));
        }
        done += 1;
        if done >= if thorough { 12 } else { 4 } {
            break;
        }
    }

    // (5) compressed bodies that expand beyond a packet, truncated Huffman streams
    for v in [6u64, 7] {
        let hs = if v == 6 { 3 } else { 7 };
        for (n, fill) in [(1390usize, 0u8), (1397, 0), (1398, 0), (1400, 0), (2000, 0), (3000, 0), (5000, 0), (1394, 0x20), (1500, 0x20)] {
            let plain = vec![fill; n];
            let z = HUFFMAN.compress_into_vec(&plain);
            if hs + z.len() > 1400 {
                continue;
            }
            let mut dg = vec![0u8; hs];
            dg[0] = if v == 6 { 0x80 } else { 0x10 };
            dg[2] = 1;
            dg.extend_from_slice(&z);
            for cap in [1400usize, 2048, 4096, 8192] {
                emit_if(c06, emit_all, &rd_case(v, &dg, "false", cap));
                emit_if(c06, emit_all, &rd_case(v, &dg, "true", cap));
            }
            // truncated streams
            for cut in [1usize, 2, 3, z.len() / 2, z.len().saturating_sub(1)] {
                let mut t = dg.clone();
                t.truncate(hs + cut.min(z.len()));
                emit_if(c06, emit_all, &rd_case(v, &t, g.hint(v), 2048));
            }
            // control flag together with compression
            let mut c = dg.clone();
            c[0] |= if v == 6 { 0x10 } else { 0x04 };
            emit_if(c06, emit_all, &rd_case(v, &c, g.hint(v), 2048));
        }
        // compressed control messages and compressed bodies that end in a token
        for body in [vec![4u8, b'x', b'y', 0], vec![1, b'T', b'K', b'E', b'N', 1, 2, 3, 4], vec![0u8; 30], vec![5, 1, 2, 3, 4]] {
            let z = HUFFMAN.compress_into_vec(&body);
            let mut dg = vec![0u8; hs];
            dg[0] = if v == 6 { 0x90 } else { 0x14 };
            dg.extend_from_slice(&z);
            for h in ["none", "true", "false"] {
                emit_if(c06, emit_all, &rd_case(v, &dg, if v == 6 { h } else { "none" }, 2048));
            }
        }
    }

    // (7) the accepted-but-unwritable values (known findings F3, F4 of C06), on every run:
    //     connless payloads just over the writers' limit, 0.7 Connect / Token with response token ffffffff
    //     -- and their neighbours that must round-trip
    for n in [1389usize, 1390, 1391, 1392, 1393, 1394] {
        let mut dg = vec![0xffu8; 6];
        dg.extend((0..n).map(|i| (i % 251) as u8));
        for h in ["none", "true", "false"] {
            emit_if(c06, emit_all, &rd_case(6, &dg, h, 2048));
        }
    }
    for n in [1389usize, 1390, 1391] {
        let mut dg = vec![0x21u8, 1, 2, 3, 4, 5, 6, 7, 8];
        dg.extend((0..n).map(|i| (i % 251) as u8));
        emit_if(c06, emit_all, &rd_case(7, &dg, "none", 2048));
    }
    for rt in [[0xffu8; 4], [0xff, 0xff, 0xff, 0xfe], [1, 2, 3, 4]] {
        // Connect(rt), Token(rt) on an authenticated header token; Token(rt) as a 519-byte token request
        let mut c = vec![0x04u8, 0, 0, 9, 8, 7, 6, 1];
        c.extend_from_slice(&rt);
        emit_if(c06, emit_all, &rd_case(7, &c, "none", 2048));
        let mut t = vec![0x04u8, 0, 0, 9, 8, 7, 6, 5];
        t.extend_from_slice(&rt);
        emit_if(c06, emit_all, &rd_case(7, &t, "none", 2048));
        let mut q = vec![0x04u8, 0, 0, 0xff, 0xff, 0xff, 0xff, 5];
        q.extend_from_slice(&rt);
        q.resize(519, 0);
        emit_if(c06, emit_all, &rd_case(7, &q, "none", 2048));
    }

    // (8) compressed packets of every kind (the writers only compress chunk packets): compression flag,
    //     body = Huffman stream (library compressor) of a short plain body -- the decoder stops at EOF --
    //     followed by arbitrary filler up to each raw-length boundary, so that length checks on the raw
    //     datagram (0.7 token request 519, the 1400 limit) and on the decompressed body (control byte,
    //     token / response-token tails, close reason, chunk headers) fall on different sides; every hint.
    {
        let mut plains: Vec<(bool, Vec<u8>)> = vec![(true, vec![])];
        for c in 0u8..=6 {
            for n in 1..=6 {
                plains.push((true, [c, 1, 2, 3, 4, 5][..n].to_vec()));
            }
            if thorough {
                for n in 2..=6 {
                    plains.push((true, [c, 0, 0, 0, 0, 0][..n].to_vec()));
                }
            }
        }
        for n in 3..=7 {
            plains.push((true, [4u8, b'a', 0, 1, 2, 3, 4][..n].to_vec()));
        }
        for n in 5..=9 {
            plains.push((true, [1u8, b'T', b'K', b'E', b'N', 1, 2, 3, 4][..n].to_vec()));
        }
        plains.push((true, vec![5, 0xff, 0xff, 0xff, 0xff]));
        plains.push((true, vec![1, 0xff, 0xff, 0xff, 0xff]));
        for area in [vec![], vec![0u8, 1, 7], vec![0x40, 1, 0, 7]] {
            for n in 0..=5 {
                let mut a = area.clone();
                a.extend_from_slice(&[9u8, 8, 7, 6, 5][..n]);
                plains.push((false, a));
            }
        }
        for v in [6u64, 7] {
            let lens: &[usize] = match (v, thorough) {
                (6, false) => &[0, 1400, 1401],
                (6, true) => &[0, 9, 1399, 1400, 1401],
                (_, false) => &[0, 518, 519, 1400, 1401],
                (_, true) => &[0, 518, 519, 520, 1399, 1400, 1401],
            };
            let tokens: &[[u8; 4]] = if v == 7 { &[[0xff; 4], [1, 2, 3, 4]] } else { &[[0; 4]] };
            let hints: &[&str] = if v == 6 { &["none", "true", "false"] } else { &["none"] };
            for (ctrl, plain) in plains.iter() {
                let z = HUFFMAN.compress_into_vec(plain);
                for tok in tokens {
                    for &len in lens {
                        let mut dg = if v == 6 {
                            vec![if *ctrl { 0x90u8 } else { 0x80 }, 0, if *ctrl { 0 } else { 1 }]
                        } else {
                            let mut h = vec![if *ctrl { 0x14u8 } else { 0x10 }, 0, if *ctrl { 0 } else { 1 }];
                            h.extend_from_slice(tok);
                            h
                        };
                        dg.extend_from_slice(&z);
                        let mut j = 0usize;
                        while dg.len() < len {
                            dg.push(((j * 37 + 11) & 0xff) as u8);
                            j += 1;
                        }
                        for h in hints {
                            emit_if(c06, emit_all, &rd_case(v, &dg, h, 2048));
                        }
                    }
                }
            }
        }
        // decompressed length on both sides of the body limit (1397 / 1393) while the raw datagram is tiny
        for v in [6u64, 7] {
            let hs = if v == 6 { 3 } else { 7 };
            for n in [1392usize, 1393, 1394, 1396, 1397, 1398] {
                let z = HUFFMAN.compress_into_vec(&vec![0u8; n]);
                for ctrl in [false, true] {
                    let mut dg = vec![0u8; hs];
                    dg[0] = match (v, ctrl) {
                        (6, false) => 0x80,
                        (6, true) => 0x90,
                        (_, false) => 0x10,
                        (_, true) => 0x14,
                    };
                    dg.extend_from_slice(&z);
                    for cap in [1400usize, 4096] {
                        emit_if(c06, emit_all, &rd_case(v, &dg, if v == 6 { "true" } else { "none" }, cap));
                    }
                }
            }
        }
    }

    // (9) datagrams of (near-)maximum length, uncompressed and compressed on the wire, every content class
    //     (the re-written form of an accepted value may take the other compression branch, or not fit the
    //     writer's internal compression buffer at all), every hint
    for v in [6u64, 7] {
        let hs = if v == 6 { 3usize } else { 7 };
        let hints: &[&str] = if v == 6 { &["none", "true", "false"] } else { &["none"] };
        let lens: Vec<usize> = if thorough { (1380..=1400).collect() } else { (1388..=1400).collect() };
        for &len in &lens {
            let classes: &[usize] = if thorough { &[0, 1, 2, 3, 4] } else { &[0, 2, 3] };
            for &cls in classes {
                let mut dg = vec![0u8; hs];
                dg[2] = 1;
                if v == 7 {
                    dg[3..7].copy_from_slice(&[9, 8, 7, 6]);
                }
                let body = filler(&mut g, cls, len - hs, &long);
                dg.extend_from_slice(&body);
                for h in hints {
                    emit_if(c06, emit_all, &rd_case(v, &dg, h, if len % 2 == 0 { 1400 } else { 2048 }));
                }
            }
            // the same body lengths behind the compression flag
            for &cls in if thorough { &[0usize, 1][..] } else { &[0usize][..] } {
                let body = filler(&mut g, cls, len - hs, &long);
                let z = HUFFMAN.compress_into_vec(&body);
                let mut dg = vec![0u8; hs];
                dg[0] = if v == 6 { 0x80 } else { 0x10 };
                dg[2] = 1;
                if v == 7 {
                    dg[3..7].copy_from_slice(&[9, 8, 7, 6]);
                }
                dg.extend_from_slice(&z);
                for h in hints {
                    emit_if(c06, emit_all, &rd_case(v, &dg, h, if len % 2 == 0 { 1400 } else { 2048 }));
                }
            }
        }
    }

    // (10) chunk packets whose header announces fewer / more chunks than the area holds (the iterator's
    //      size_hint / len / collect are observed on every accepted chunk packet), and close reasons at
    //      every length around the 127-byte limit, with / without NUL, with trailing data, with a token,
    //      in the accepted -> re-written -> re-read path; both versions, every hint
    for v in [6u64, 7] {
        let hs = if v == 6 { 3usize } else { 7 };
        let hints: &[&str] = if v == 6 { &["none", "true", "false"] } else { &["none"] };
        let cl = json!([
            {"vital": false, "seq": 0, "resend": false, "data": [1, 2, 3]},
            {"vital": true, "seq": 700, "resend": true, "data": []},
            {"vital": true, "seq": 5, "resend": false, "data": bj(&[9u8; 20])},
        ]);
        let area = if v == 6 { c6::build_area(&cl) } else { c7::build_area(&cl) }.unwrap_or_default();
        for nc in [0u8, 1, 2, 3, 4, 255] {
            for with_tok in [false, true] {
                let mut dg = vec![0u8; hs];
                dg[2] = nc;
                if v == 7 {
                    dg[3..7].copy_from_slice(&[9, 8, 7, 6]);
                }
                dg.extend_from_slice(&area);
                if with_tok {
                    dg.extend_from_slice(&[1, 2, 3, 4]);
                }
                for h in hints {
                    emit_if(c06, emit_all, &rd_case(v, &dg, h, 2048));
                }
            }
        }
        for len in [0usize, 1, 2, 3, 4, 125, 126, 127, 128, 129, 200] {
            for tail in 0..4 {
                // 0: NUL-terminated, 1: no NUL, 2: NUL + two more bytes, 3: NUL + token
                let mut dg = vec![0u8; hs];
                dg[0] = if v == 6 { 0x10 } else { 0x04 };
                if v == 7 {
                    dg[3..7].copy_from_slice(&[9, 8, 7, 6]);
                }
                dg.push(4);
                dg.extend((0..len).map(|i| b'a' + (i % 26) as u8));
                match tail {
                    0 => dg.push(0),
                    1 => {}
                    2 => dg.extend_from_slice(&[0, b'x', b'y']),
                    _ => dg.extend_from_slice(&[0, 1, 2, 3, 4]),
                }
                for h in hints {
                    emit_if(c06, emit_all, &rd_case(v, &dg, h, 2048));
                }
            }
        }
    }

    // (11) the compression choice (C05): inputs of the codec whose compressed form is one byte shorter than,
    //      exactly as long as, and one byte longer than the input itself. The check derives such inputs from
    //      the code-word lengths of spec/huffman/HuffTable.tla (VH_TIES: codec input = chunk area; VH_TIES_TOK:
    //      chunk areas whose codec input in 0.6 is area + token 09 08 07 06); in addition a search with the
    //      library's own length function over mixed content of several sizes.
    {
        let unhex = |s: &str| -> Vec<u8> { (0..s.len() / 2).filter_map(|i| u8::from_str_radix(&s[2 * i..2 * i + 2], 16).ok()).collect() };
        let list = |name: &str| -> Vec<Vec<u8>> {
            std::env::var(name).map(|s| s.split(',').filter(|x| !x.is_empty()).map(|x| unhex(x)).collect()).unwrap_or_default()
        };
        let mut plain = list("VH_TIES");
        let mut withtok = list("VH_TIES_TOK");
        // search: zeros progressively replaced by long-code bytes until the compressed length crosses the input length
        let sizes: &[usize] = if thorough { &[5, 8, 16, 33, 48, 100, 500, 1000, 1393] } else { &[8, 33, 100, 1393] };
        for &n in sizes {
            for (extra, dst) in [(0usize, 0usize), (4, 1)] {
                for sym in [long[0], long[long.len() - 1], 0x41] {
                    let mut data = vec![0u8; n];
                    let mut seen = [false; 3];
                    for k in 0..n {
                        data[k] = sym;
                        let mut input = data.clone();
                        if extra == 4 {
                            input.extend_from_slice(&[9, 8, 7, 6]);
                        }
                        let cl = HUFFMAN.compressed_len(&input) as i64 - input.len() as i64;
                        if (-1..=1).contains(&cl) && !seen[(cl + 1) as usize] {
                            seen[(cl + 1) as usize] = true;
                            if dst == 0 { plain.push(data.clone()) } else { withtok.push(data.clone()) }
                        }
                        if cl > 1 {
                            break;
                        }
                    }
                }
            }
        }
        for (i, d) in plain.iter().enumerate() {
            let rcap = if i % 2 == 0 { 1400 } else { 2048 };
            emit_if(c05, emit_all, &json!({"k": "rt", "v": 6, "rcap": rcap, "hascl": false, "cl": [], "p": {"t": "chunks", "ack": 3, "token": [], "rr": false, "nc": 1, "data": bj(d)}}));
            emit_if(c05, emit_all, &json!({"k": "rt", "v": 7, "rcap": rcap, "hascl": false, "cl": [], "p": {"t": "chunks", "ack": 3, "token": [9, 8, 7, 6], "rr": false, "nc": 1, "data": bj(d)}}));
        }
        for (i, d) in withtok.iter().enumerate() {
            let rcap = if i % 2 == 0 { 1400 } else { 2048 };
            emit_if(c05, emit_all, &json!({"k": "rt", "v": 6, "rcap": rcap, "hascl": false, "cl": [], "p": {"t": "chunks", "ack": 3, "token": [9, 8, 7, 6], "rr": true, "nc": 1, "data": bj(d)}}));
        }
    }

    // (12) compressed packets of every kind whose DEcompressed size is one under / exactly at / one over the
    //      body limit (1397 / 1393), read with a scratch buffer of the documented minimum, one byte more, and
    //      a generous one; compressed with the library's compressor; every hint
    for v in [6u64, 7] {
        let hs = if v == 6 { 3usize } else { 7 };
        let max = 1400 - hs;
        let hints: &[&str] = if v == 6 { &["none", "true", "false"] } else { &["none"] };
        for n in [max - 1, max, max + 1] {
            if !thorough && n < max {
                continue;
            }
            for kind in 0..6 {
                let mut body: Vec<u8> = Vec::new();
                let mut ctrl = true;
                match kind {
                    0 | 5 => {
                        // a valid chunk area filling the body (kind 5: its last four bytes are a token)
                        ctrl = false;
                        let area = if kind == 5 { n - 4 } else { n };
                        let cl = json!([{"vital": false, "seq": 0, "resend": false, "data": bj(&vec![0u8; 1000])},
                                        {"vital": true, "seq": 1023, "resend": true, "data": bj(&vec![1u8; area - 1005])}]);
                        body = if v == 6 { c6::build_area(&cl) } else { c7::build_area(&cl) }.unwrap_or_default();
                        if kind == 5 {
                            body.extend_from_slice(&[9, 8, 7, 6]);
                        }
                    }
                    1 => { body.push(4); body.extend(std::iter::repeat(b'a').take(n - 2)); body.push(0); }
                    2 => { body.push(0); body.extend(std::iter::repeat(0u8).take(n - 1)); }
                    3 => { body.push(1); body.extend_from_slice(b"TKEN"); body.extend(std::iter::repeat(0u8).take(n - 5)); }
                    _ => { body.push(5); body.extend_from_slice(&[9, 8, 7, 6]); body.extend(std::iter::repeat(0u8).take(n - 5)); }
                }
                let z = HUFFMAN.compress_into_vec(&body);
                if hs + z.len() > 1400 {
                    continue;
                }
                let mut dg = vec![0u8; hs];
                dg[0] = match (v, ctrl) { (6, false) => 0x80, (6, true) => 0x90, (_, false) => 0x10, (_, true) => 0x14 };
                dg[2] = if ctrl { 0 } else { 2 };
                if v == 7 {
                    dg[3..7].copy_from_slice(&[9, 8, 7, 6]);
                }
                dg.extend_from_slice(&z);
                for &cap in if thorough { &[1400usize, 1401, 2048][..] } else { &[1400usize][..] } {
                    for h in hints {
                        emit_if(c06, emit_all, &rd_case(v, &dg, h, cap));
                    }
                }
            }
        }
    }

    // (6) headers: random in-range field tuples and random byte patterns
    for _ in 0..n_hdr {
        let v = if g.rng.gen_bool(0.5) { 6 } else { 7 };
        let hks: &[&str] = if v == 6 { &["ph", "ch", "chv"] } else { &["ph", "phc", "ch", "chv"] };
        let hk = hks[g.rng.gen_range(0..hks.len())];
        let n = header_size(v, hk);
        let b: Vec<u8> = (0..n).map(|_| g.rng.gen::<u8>()).collect();
        emit_if(c05, emit_all, &json!({"k": "hb", "v": v, "hk": hk, "b": bj(&b)}));
        let size_max = if v == 6 { 1024 } else { 4096 };
        let h = match hk {
            "ph" if v == 6 => json!({"flags": g.rng.gen_range(0..16), "ack": g.ack(), "nc": g.rng.gen::<u8>()}),
            "ph" => json!({"flags": g.rng.gen_range(0..16), "ack": g.ack(), "nc": g.rng.gen::<u8>(), "token": bj(&g.token())}),
            "phc" => json!({"flags": g.rng.gen_range(0..16), "version": g.rng.gen_range(0..4), "token": bj(&g.token()), "rtoken": bj(&g.token())}),
            "ch" => json!({"flags": g.rng.gen_range(0..4), "size": g.rng.gen_range(0..size_max)}),
            _ => json!({"flags": g.rng.gen_range(0..4), "size": g.rng.gen_range(0..size_max), "seq": g.ack()}),
        };
        emit_if(c05, emit_all, &json!({"k": "hf", "v": v, "hk": hk, "h": h}));
    }
}

// ---------------------------------------------------------------- main

fn usage() -> ! {
    eprintln!("usage: vh-wire exec <events.ndjson>            (cases: NDJSON or TLC <<\"V\", json>> lines on stdin)");
    eprintln!("       vh-wire drive <seed> <quick|thorough> <c05|c06|all> <events.ndjson>");
    std::process::exit(2);
}

fn main() {
    let args: Vec<String> = std::env::args().collect();
    if args.len() < 3 {
        usage();
    }
    vh_common::quiet_panics();
    vh_common::start_watchdog();
    let path = args.last().unwrap().clone();
    let file = std::fs::File::create(&path).expect("create events file");
    let mut out = std::io::BufWriter::with_capacity(1 << 20, file);
    let mut n = 0u64;
    let mut panics = 0u64;
    // events are written in batches {"k":"batch","base":<index of the first item - 1>,"items":[...]}
    // (one TLC state per batch); VH_BATCH=1 writes plain events
    let batch: usize = std::env::var("VH_BATCH").ok().and_then(|s| s.parse().ok()).unwrap_or(128);
    let mut pending: Vec<String> = Vec::new();
    let mut pending_bytes = 0usize;
    fn flush_batch(out: &mut std::io::BufWriter<std::fs::File>, pending: &mut Vec<String>, n: u64, plain: bool) {
        if pending.is_empty() {
            return;
        }
        let base = n - pending.len() as u64;
        if plain {
            out.write_all(pending[0].as_bytes()).unwrap();
        } else {
            write!(out, "{{\"k\":\"batch\",\"base\":{},\"items\":[{}]}}", base, pending.join(",")).unwrap();
        }
        out.write_all(b"\n").unwrap();
        out.flush().unwrap();
        pending.clear();
    }
    let mut run = |case: &Value, out: &mut std::io::BufWriter<std::fs::File>| {
        vh_common::set_case(&case.to_string());
        let ev = exec_case(case);
        let s = ev.to_string();
        if s.contains("\"r\":\"panic\"") {
            panics += 1;
        }
        pending_bytes += s.len();
        pending.push(s);
        n += 1;
        if pending.len() >= batch || pending_bytes > (1 << 20) {
            flush_batch(out, &mut pending, n, batch <= 1);
            pending_bytes = 0;
        }
    };
    match args[1].as_str() {
        "exec" => {
            let stdin = std::io::stdin();
            let mut tlc_tail: Vec<String> = Vec::new();
            let (mut bulk_slices, mut bulk_tuples) = (0u64, 0u64);
            for line in stdin.lock().lines() {
                let line = match line {
                    Ok(l) => l,
                    Err(_) => break,
                };
                let t = line.trim();
                if t.is_empty() {
                    continue;
                }
                let case: Option<Value> = if t.starts_with('{') {
                    serde_json::from_str(t).ok()
                } else if t.starts_with("<<\"V\"") {
                    vh_common::parse_tlc_tuple(t).and_then(|p| p.get(1).and_then(|s| serde_json::from_str(s).ok()))
                } else if t.starts_with("<<\"BULK\"") {
                    // a slice of a header space on which TLC has just checked the header laws and the table law
                    if let Some(p) = vh_common::parse_tlc_tuple(t) {
                        bulk_slices += 1;
                        bulk_tuples += p.get(3).and_then(|x| x.trim().parse::<u64>().ok()).unwrap_or(0);
                    }
                    None
                } else if t.starts_with("<<\"TAB\"") {
                    // a class table: sweep its whole space on the real code
                    let tj: Option<Value> = vh_common::parse_tlc_tuple(t).and_then(|p| p.get(1).and_then(|s| serde_json::from_str(s).ok()));
                    match tj.as_ref().and_then(Tab::from_json) {
                        Some(tab) => {
                            let t0 = std::time::Instant::now();
                            let (total, mism, pn, sampled) = sweep(&tab, &mut |c| run(c, &mut out));
                            println!("SWEEP {} sfx={} tuples={} mismatches={} panics={} sampled={} ms={}", tab.id, vh_common::hex(&tab.sfx), total, mism, pn, sampled, t0.elapsed().as_millis());
                        }
                        None => println!("SWEEP-BADTABLE {}", &t[..t.len().min(120)]),
                    }
                    None
                } else {
                    // TLC's own messages: keep the tail for the driver
                    tlc_tail.push(line.clone());
                    if tlc_tail.len() > 60 {
                        tlc_tail.remove(0);
                    }
                    None
                };
                if let Some(c) = case {
                    run(&c, &mut out);
                }
            }
            drop(run);
            flush_batch(&mut out, &mut pending, n, batch <= 1);
            println!("BULKLAW slices={} tuples={}", bulk_slices, bulk_tuples);
            for l in tlc_tail {
                println!("TLC| {}", l);
            }
        }
        "drive" => {
            if args.len() < 6 {
                usage();
            }
            let seed: u64 = args[2].parse().unwrap_or(1);
            let tier = args[3].clone();
            let parts = args[4].clone();
            drive(seed, &tier, &parts, &mut |c| run(c, &mut out));
            drop(run);
            flush_batch(&mut out, &mut pending, n, batch <= 1);
        }
        _ => usage(),
    }
    println!("EVENTS {} PANICS {}", n, panics);
}
