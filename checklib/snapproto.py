"""Helpers shared by C12 (spec/snaprecv) and C13 (spec/snapsync): running the
TLC transition export into `vh-snapproto`, collecting deviations, getting the
verdict on them from the TLA+ trace specification, binding self-test."""
import concurrent.futures
import json
import os
import re

from checklib import core

PKG = "vh-snapproto"


def exe(bins):
    return os.path.join(bins, "vh-snapproto")


def parse_lines(out):
    recs = []
    hang = None
    for line in out.splitlines():
        line = line.strip()
        if line.startswith("HANG "):
            hang = line[5:]
        elif line.startswith("{"):
            try:
                recs.append(json.loads(line))
            except ValueError:
                pass
    return recs, hang


class Export:
    def __init__(self, cfg):
        self.cfg = cfg
        self.summary = None
        self.mismatches = []
        self.hang = None
        self.tlc = None
        self.rc = None
        self.wall = 0.0


def run_export(module, cfg, cwd, consumer, timeout=900, heap="3g", env=None):
    """tlc (1 worker, ACTION_CONSTRAINT Export) | harness replay. Returns Export."""
    ex = Export(cfg)
    tres, rc, out = core.tlc_pipe(module, cfg, consumer, cwd=cwd, timeout=timeout, heap=heap, workers=1, env=env)
    ex.rc = rc
    ex.wall = tres.wall_s
    recs, ex.hang = parse_lines(out)
    for r in recs:
        if r.get("kind") == "summary":
            ex.summary = r
        elif r.get("kind") == "mismatch":
            ex.mismatches.append(r)
    res = core.TlcResult()
    res.rc = tres.rc
    res.wall_s = tres.wall_s
    if ex.summary is not None:
        core.parse_tlc("\n".join(ex.summary.get("tlc_tail", [])), res)
    ex.tlc = res
    return ex


def run_exports(module, cfgs, cwd, consumer, parallel=4, timeout=900, heap="3g", env=None):
    with concurrent.futures.ThreadPoolExecutor(max_workers=parallel) as pool:
        futs = [pool.submit(run_export, module, c, cwd, consumer, timeout, heap, env) for c in cfgs]
        return [f.result() for f in futs]


_RE_RESULT = re.compile(r'^<<"RESULT", "(.*)">>\s*$', re.M)


def trace_result(res):
    """The JSON the trace spec printed with the last event (None if absent)."""
    m = _RE_RESULT.search(res.out)
    if not m:
        return None
    raw = m.group(1)
    out = []
    i = 0
    while i < len(raw):
        c = raw[i]
        if c == "\\" and i + 1 < len(raw):
            n = raw[i + 1]
            out.append({"n": "\n", "t": "\t"}.get(n, n))
            i += 2
        else:
            out.append(c)
            i += 1
    return json.loads("".join(out))


def validate(module, cfg, trace_path, cwd, timeout=900, heap="3g", env=None):
    """Runs the trace spec. Returns (consumed_ok, result_json, TlcResult)."""
    ok, res = core.validate_trace(module, cfg, trace_path, cwd=cwd, timeout=timeout, heap=heap, extra_env=env)
    if res.error and not res.violated:
        raise core.ToolError("trace validation failed to evaluate: %s" % res.error[:600])
    rj = trace_result(res)
    if rj is None and ok:
        # an empty trace prints nothing
        rj = {"events": 0, "judged": 0, "ndrift": 0, "nviol": 0, "drift": [], "viol": []}
    return ok, rj, res


def split_runs(trace_path):
    """Trace file -> {run number: [event dict, ...]} (1-based event index kept as '_i')."""
    runs = {}
    cur = None
    for i, ev in enumerate(core.read_ndjson(trace_path), start=1):
        ev["_i"] = i
        if ev.get("e") == "reset":
            cur = ev["run"]
            runs[cur] = []
        if cur is not None:
            runs[cur].append(ev)
    return runs
