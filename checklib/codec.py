"""Helpers shared by the checks of the two low-level codecs: C08 (variable-length integers and
packed fields, spec/varint) and C07 (Huffman, spec/huffman).  Orchestration only: every verdict
comes from TLC (model checking of the format laws, trace validation of what the real code did)."""
import concurrent.futures
import json
import os
import re
import shutil
import subprocess
import sys

from checklib import core

BINPKG = "vh-codec"


def spec_copy(ctx, comp):
    """Work copy of spec/<comp> (TLC runs there; for huffman the code table is regenerated from
    the documentation of the repository under test)."""
    dst = os.path.join(ctx.workdir, "spec-" + comp)
    shutil.rmtree(dst, ignore_errors=True)
    shutil.copytree(os.path.join(core.SPEC, comp), dst, ignore=shutil.ignore_patterns("states", "*.st", "*.fp"))
    os.makedirs(os.path.join(ctx.workdir, "tmp"), exist_ok=True)
    return dst


def java_env(ctx, xss=False):
    # a private java.io.tmpdir: TLC unpacks its standard modules there, and /tmp is cleaned by others
    opts = "-Djava.io.tmpdir=" + os.path.join(ctx.workdir, "tmp")
    return {"JAVA_TOOL_OPTIONS": opts}


def strip_tlc(out):
    """The harness echoes TLC's own lines with the prefix 'TLC: '."""
    return "\n".join(l[5:] for l in out.splitlines() if l.startswith("TLC: "))


def summary_of(out):
    for l in out.splitlines():
        if l.startswith("SUMMARY "):
            return json.loads(l[8:])
    return None


def pipe(ctx, cwd, module, cfg, consumer, label, workers=2, timeout=900, coverage=False):
    """tlc <module> <cfg> | consumer.  Returns (TlcResult parsed from the echoed TLC lines,
    harness summary dict, raw harness stdout, harness rc)."""
    extra = ["-coverage", "1"] if coverage else None
    res, rc, out = core.tlc_pipe(module, cfg, consumer, cwd=cwd, timeout=timeout, env=java_env(ctx),
                                 workers=workers, extra=extra, heap="3g")
    tl = strip_tlc(out)
    res.out = tl
    core.parse_tlc(tl, res)
    core.log("[tlc|harness] %s: distinct=%d generated=%d ok=%s %.1fs rc=%s" % (
        label, res.distinct, res.generated, res.ok, res.wall_s, rc))
    return res, summary_of(out), out, rc


def harness_failure(ctx, prop, label, rc, out, replay_obj=None):
    """A harness process that did not exit normally.  97 = watchdog (a call into the library did
    not return): data, a violation.  3 / HARNESS-ERROR = bug of the harness: tool failure.
    A signal = crash of the code under test (or of the C++ reference): violation."""
    if rc == 0:
        return False
    if rc == 97:
        case = [l for l in out.splitlines() if l.startswith("HANG ")]
        ctx.report("hang:%s:%s" % (label, case[-1][5:120] if case else "?"),
                   "a call into the library did not return within the watchdog limit (%s)" % label,
                   replay_obj or {"label": label, "case": case[-1] if case else None})
        return True
    err = [l for l in out.splitlines() if l.startswith("HARNESS-ERROR")]
    if err or rc in (2, 3, 101):
        raise core.ToolError("harness failed (%s, rc=%s): %s" % (label, rc, err[:1]))
    ctx.report("crash:%s:rc=%s" % (label, rc), "the harness process died (rc=%s) while executing %s" % (rc, label),
               replay_obj or {"label": label})
    return True


def check_model_run(ctx, res, label, expect_export=True):
    """A TLC run of the specification itself must finish without error: a violated law on the
    model means the *specification* (the design) is inconsistent -- reported as a violation too."""
    ctx.add_states(res, label)
    if res.ok:
        return True
    tail = "\n".join(res.out.splitlines()[-25:])
    if res.error and res.violated is None and ("Parsing or semantic analysis failed" in res.out or "java.lang" in res.out):
        raise core.ToolError("TLC failed on %s: %s" % (label, (res.error or "")[:300]))
    ctx.report("model:%s:%s" % (label, res.violated or "error"),
               "TLC rejects the specification's own laws in %s: %s\n%s" % (label, res.violated or res.error, tail),
               {"label": label, "tlc_tail": tail})
    return False


_RE_DRIFT = re.compile(r'^"@DRIFT (\d+) (.*)"$')
_RE_F2 = re.compile(r'^"@F2 (\d+) height (\d+)"$')
_RE_REJ = re.compile(r'^"@REJECTED (.*)"$')


def unescape(s):
    return json.loads('"' + s + '"')


def run_trace(ctx, cwd, module, cfg, path, timeout=900):
    """One TLC trace-validation run.  Returns dict(accepted, index, event, drifts, f2, res)."""
    ok, res = _validate(ctx, cwd, module, cfg, path, timeout)
    drifts, f2, rej = [], [], None
    for l in res.out.splitlines():
        m = _RE_DRIFT.match(l)
        if m:
            drifts.append((int(m.group(1)), unescape(m.group(2))[:300]))
            continue
        m = _RE_F2.match(l)
        if m:
            f2.append((int(m.group(1)), int(m.group(2))))
            continue
        m = _RE_REJ.match(l)
        if m:
            try:
                rej = json.loads(unescape(m.group(1)))
            except Exception:
                rej = {"index": None, "event": m.group(1)[:500]}
    accepted = ok and '"@ACCEPTED' in res.out
    if not accepted and rej is None:
        # neither accepted nor a clean rejection: TLC itself failed (evaluation error, crash)
        tail = "\n".join(res.out.splitlines()[-30:])
        raise core.ToolError("trace validation failed without a verdict (%s %s): %s" % (module, path, tail[-1500:]))
    return {"accepted": accepted, "index": rej["index"] if rej else None, "event": rej["event"] if rej else None,
            "drifts": drifts, "f2": f2, "res": res}


def _validate(ctx, cwd, module, cfg, path, timeout):
    e = java_env(ctx)
    e["TRACE"] = os.path.abspath(path)
    res = core.run_tlc(module, cfg, cwd=cwd, workers=1, timeout=timeout, env=e, heap="3g", stack="1g", deque=True)
    return (res.ok and "TRACE REJECTED" not in res.out), res


def judge_trace(ctx, cwd, module, cfg, path, segment_of, key_of, label, max_rounds=3, timeout=900):
    """Validates an NDJSON trace; every rejected segment is reported (ctx.report with a replay
    file holding the segment's events) and cut out, then the rest is validated again, so that
    several independent violations in one trace are all seen.  `segment_of(events, idx)` gives
    the (start, end) 0-based slice to cut / replay for a rejection at 0-based idx;
    `key_of(event, segment)` the stable key.  Returns (n_events_accepted, drifts, f2)."""
    events = core.read_ndjson(path)
    total_ok, all_drifts, all_f2 = 0, [], []
    rounds = 0
    cur = path
    while True:
        if not events:
            break
        r = run_trace(ctx, cwd, module, cfg, cur, timeout=timeout)
        ctx.coverage["traces_validated_against_impl"] += 1
        ctx.add_states(r["res"], "trace validation (%s): one state per consumed event" % label)
        # drift / F2 lines refer to indices of the current file
        upto = len(events) if r["accepted"] else (r["index"] - 1)
        for (i, what) in r["drifts"]:
            if i <= upto + 1:
                all_drifts.append(what)
        for (i, h) in r["f2"]:
            if i <= upto + 1:
                all_f2.append((events[i - 1], h))
        if r["accepted"]:
            total_ok += len(events)
            break
        idx = r["index"] - 1
        a, b = segment_of(events, idx)
        seg = events[a:b]
        ev = events[idx]
        ctx.report(key_of(ev, seg), "%s: the specification rejects what the code did at event %d: %s" % (
            label, r["index"], json.dumps(ev)[:600]), {"kind": label, "events": seg, "rejected": ev})
        total_ok += a
        events = events[:a] + events[b:]
        rounds += 1
        if rounds >= max_rounds:
            ctx.note("%s: stopped after %d rejected segments" % (label, rounds))
            break
        cur = path + ".r%d" % rounds
        with open(cur, "w") as fh:
            for e in events:
                fh.write(json.dumps(e) + "\n")
    return total_ok, all_drifts, all_f2


def parallel(jobs, max_workers=4):
    """Run callables concurrently (they mostly wait for subprocesses); exceptions propagate."""
    with concurrent.futures.ThreadPoolExecutor(max_workers=max_workers) as ex:
        futs = [ex.submit(j) for j in jobs]
        return [f.result() for f in futs]


def write_events(path, events):
    with open(path, "w") as fh:
        for e in events:
            fh.write(json.dumps(e) + "\n")
