"""C10 - a snapshot survives serialization, including UUID-typed items; recycle.

TLC checks the registry laws (View / Lookup / Recycle) of SnapAlg.tla on every builder call
sequence of a small universe, exports every sequence into the harness, which runs it on the
real Builder, writes the snapshot (ints and bytes), reads it back (and obtains it once more
through a delta), enumerates / looks up every probe on every copy, recycles every copy and
adds items of old and new UUID types; SnapAlgTrace.tla judges every recorded event."""
from checklib import core, snapalg

LEVEL = "model_checking"


def run(ctx):
    binp = snapalg.build()
    run_ = snapalg.Run(ctx)
    if ctx.tier == "quick":
        fams, nb, seeds, par = ["SnapQuick", "SnapBaseQuick", "SnapReuse", "SnapLimitQuick", "ChainSnapQuick", "Api"], 60, 1, 6
        more_b = [("chainsnap", 4), ("api", 30)]
    else:
        fams, nb, seeds, par = ["SnapThorough", "SnapBaseThorough", "SnapReuse", "SnapLimitThoroughA", "SnapLimitThoroughB", "ChainSnapQuick", "Api"], 400, 6, 8
        more_b = [("chainsnap", 30), ("api", 300)]
    paths = snapalg.run_all(ctx, run_, binp, fams, fams, "snap", nb, seeds=seeds, par=par,
                            law_workers=2 if ctx.tier == "quick" else 4, more_b=more_b)
    if ctx.tier == "thorough" and paths:
        def mut(ev):
            ev["copies"][0]["obs"]["crc"] ^= 1
            return "checksum of the copy read from the integers flipped in one bit"
        snapalg.binding_selftest(ctx, paths[0], mut)
    ctx.coverage["exhaustive"] = True
    ctx.assumptions += [
        "ordinal type ids are in 1..0x3fff (the builder asserts it)",
        "exhaustive over the small universes of MC_SnapAlg.tla only; real-size snapshots (up to 1024 items / 64 KiB, up to hundreds of UUID types) are seeded random samples",
    ]
    run_.finish("distinct builder call sequences containing at least one UUID-typed item, counted by digest of the case input")


def replay(ctx, path):
    snapalg.replay(ctx, path)
