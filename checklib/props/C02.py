"""C02 — connection layer (spec/conn): see checklib/conn.py and DESIGN.md §5 C02.
Besides the two-endpoint model, progress is also checked for the multi-peer endpoint (net.rs is anchored by C02:
Net::needs_tick / Net::tick): deviations of a real Net<u8> from Net.tla that concern ticking and deadlines, judged by
NetIso.tla against independent shadow connections, are C02 violations."""
import json

from checklib import conn, core
from checklib.props import C20

LEVEL = "model_checking"


def net_progress(ctx, bins):
    q = ctx.tier == "quick"
    cfgs = [("net-server-ticks", C20.N(MaxFeeds=2, MaxCalls=2, MaxTicks=2, MaxRewind=0))]
    if not q:
        cfgs.append(("net-client-ticks", C20.N(Accepting=False, MaxFeeds=3, MaxCalls=2, MaxTicks=2)))
    for s in conn.run_parallel([(C20.export_replay, (ctx, bins, n, c, 600 if q else 3000)) for n, c in cfgs], 2):
        if s is None:
            continue
        ctx.coverage["transitions"] += s["transitions"]
        ctx.coverage["states"] += s["states"]
        ctx.coverage["evaluations"] += s["transitions"]
        ctx.coverage["distinct_nontrivial"] += s["states"]
        ctx.add_run("export+replay " + s["name"], transitions=s["transitions"], states=s["states"], mismatches=s["mismatches"],
                    wall_s=round(s["wall_s"], 1))
        cands = s.get("candidates", [])
        if not cands:
            continue
        nruns, bad = C20.judge(s["cand_file"])
        ctx.coverage["traces_validated_against_impl"] += nruns
        badruns = {}
        for b in bad:
            badruns.setdefault(b["run"], []).append(b)
        seen = {}
        for i, c in enumerate(cands, start=1):
            for b in badruns.get(i, []):
                last = c["path"][-1].get("a", "?") if c["path"] else "?"
                timing = last in ("tick", "advance") or "needs_tick" in b["why"]
                if not timing:
                    continue            # isolation / creation / removal findings belong to C20
                key = "C02-net|%s|%s" % (b["why"][:60], last)
                seen[key] = seen.get(key, 0) + 1
                if seen[key] <= 2:
                    ctx.report(key, "C02: the multi-peer endpoint does not tick / report deadlines like independent connections: " + b["why"],
                               {"net": True, "accepting": s["cfg"]["Accepting"], "addrs": len(s["cfg"]["Addrs"]), "path": c["path"]})


def run(ctx):
    conn.run_property(ctx, "C02")
    bins = core.build_harness(["vh-conn"])
    net_progress(ctx, bins)


def replay(ctx, path):
    rep = json.load(open(path))["replay"]
    if rep.get("net"):
        C20.replay(ctx, path)
    else:
        conn.replay_file(ctx, "C02", path)
