"""C04 — connection layer (spec/conn): see checklib/conn.py and DESIGN.md §5 C04."""
from checklib import conn

LEVEL = "model_checking"


def run(ctx):
    conn.run_property(ctx, "C04")


def replay(ctx, path):
    conn.replay_file(ctx, "C04", path)
