"""C19 -- the uninitialized-buffer abstraction never overruns and counts exactly.

Spec: spec/buffer/Buffer.tla (owner + stack of views, one action per public call),
MC_Buffer.tla (bounded alphabets, graph export), BufferTrace.tla (trace validation).

Direction A: TLC model-checks the bounded instance (invariants + action properties) and
exports every transition of the reachable graph; vh-buffer walks *every path* of at most
L operations through that graph (plus the closes releasing all views, plus `final`),
executes it through with_buffer / BufferRef / ReadBuffer on each backing store and
compares each observed outcome with the edge labels TLC computed. An edge that is not the
detailed one but is allowed by the property (a refused write accepting a shorter prefix)
is DRIFT; no matching edge (wrong count, wrong bytes, wrong length, panic) is a VIOLATION.

Direction B: a seeded random driver runs long sequences with real sizes; the NDJSON trace
is validated by BufferTrace.tla, whose invariants are evaluated on every step.

Thorough tier also: binding self-test (corrupted / shortened trace must be rejected) and
the TLC-generated edge-cover plans executed under Miri (memory-safety sentence of C19:
Miri is the execution vehicle, an Undefined-Behavior report is a violation).
"""
import json
import os
import re
import subprocess
import threading
import time

from checklib import core

LEVEL = "model_checking"
SPECDIR = os.path.join(core.SPEC, "buffer")
KINDS = ["vec", "arrayvec", "slice", "sliceref", "raw"]


# ----------------------------------------------------------------------------- helpers

# families of alphabets (spec/buffer/gen_cfgs.py): every one is model-checked (invariants, action properties) and walked
WALKS = {"quick": ["MC_quick", "Q_readers", "Q_stores", "Q_users"],
         "thorough": ["Walk_deep", "Walk_wide", "Q_readers", "Q_stores", "Q_users"]}
MODELS = {"quick": [], "thorough": ["MC_thorough"]}
ACTION_NAMES = ["setup", "open", "write", "extend", "advance", "scribble", "close", "closeinit", "unwind", "read", "readclose",
                "overadvance", "touch", "reopen", "rawdirty", "user", "pk", "grow", "final"]
_LOCK = threading.Lock()
CRASH_SIGNALS = (-4, -6, -7, -8, -11, 132, 134, 135, 136, 139)   # SIGILL, SIGABRT, SIGBUS, SIGFPE, SIGSEGV


def _export_cfg(ctx, name):
    """The family's config plus the export of every transition (invariants and action properties stay on:
    the same TLC run model-checks the family and feeds the walker)."""
    src = open(os.path.join(SPECDIR, "%s.cfg" % name)).read()
    p = os.path.join(ctx.workdir, "Exp_%s.cfg" % name)
    open(p, "w").write(src + "ACTION_CONSTRAINT Export\n")
    return p


def _max_ops(name):
    src = open(os.path.join(SPECDIR, "%s.cfg" % name)).read()
    return int(re.search(r"MaxOps\s*=\s*(\d+)", src).group(1))


def _judge_trace(ctx, trace_path, label, report=True):
    """Validate a recorded trace with BufferTrace.tla. Returns (accepted, rejected_event_index)."""
    ok, res = core.validate_trace("BufferTrace.tla", "Trace.cfg", trace_path, cwd=SPECDIR, timeout=900)
    m = re.search(r"TRACE REJECTED at event\D+(\d+)", res.out)
    for dm in re.finditer(r"TRACE DRIFT at event\D+(\d+)", res.out):
        if report:
            ctx.report_drift("%s: event %s follows a step the property allows but the detailed specification does not "
                             "(a refused write that counted a shorter prefix than the bytes that fit, or read_buffer_ref returning only the "
                             "newly stored bytes)" % (label, dm.group(1)))
    if ok:
        return True, None, res
    if res.violated and not m:
        # an invariant / action property of Buffer.tla failed on the real execution
        dm = re.findall(r"^State (\d+):", res.out, re.M)
        idx = int(dm[-1]) - 1 if dm else None
        return False, idx, res
    if m:
        return False, int(m.group(1)), res
    raise core.ToolError("trace validation of %s failed without a verdict: %s" % (label, (res.error or res.out[-800:])))


def _run_of_event(events, idx):
    """acts of the run (setup .. ) that contains event number idx (1-based), up to idx."""
    idx = max(1, min(idx, len(events)))
    start = idx - 1
    while start > 0 and events[start]["act"].get("a") != "setup":
        start -= 1
    return [e["act"] for e in events[start:idx]]


def _norm(key):
    """keys must not depend on where the checkout lives"""
    return key.replace(core.repo_root() + "/", "")


def _key_of_event(ev):
    a = ev.get("act", {})
    o = ev.get("out", {})
    r = o.get("r", "?")
    if r == "panic":
        return _norm("panic:%s:trace:%s:at=%s" % (a.get("a"), "cap_at" if a.get("ks") else "nocap", o.get("loc", "")))
    return "deviates:%s:trace" % a.get("a")


# ----------------------------------------------------------------------------- direction A

def _direction_a(ctx, bins, tier, name, sem=None):
    """One TLC run per family: model-checks it (invariants, action properties) and exports the graph to the walker."""
    depth = _max_ops(name)
    cfg = _export_cfg(ctx, name)
    cover = os.path.join(ctx.workdir, "cover_%s.ndjson" % name)
    cmd = [os.path.join(bins, "vh-buffer"), "graph", "--depth", str(depth), "--cover", cover,
           "--threads", "4" if tier == "quick" else "8", "--max-paths", "120000000"]
    t0 = time.time()
    if sem is not None:
        sem.acquire()
    try:
        tres, rc, out = core.tlc_pipe("MC_Buffer.tla", cfg, cmd, cwd=SPECDIR, timeout=1200 if tier == "quick" else 3000)
    finally:
        if sem is not None:
            sem.release()

    def account():
        if rc != 0:
            if rc in CRASH_SIGNALS:
                # which sequence? walk again single-threaded with a crash journal (the plan is written before it is run)
                jpath = os.path.join(ctx.workdir, "journal_%s.json" % name)
                plan = None
                try:
                    core.tlc_pipe("MC_Buffer.tla", cfg,
                                  [os.path.join(bins, "vh-buffer"), "graph", "--depth", str(depth), "--journal", jpath],
                                  cwd=SPECDIR, timeout=2400)
                    plan = json.load(open(jpath))
                except Exception as e:  # noqa
                    core.log("[C19] crash journal failed: %s" % e)
                kind = (plan or [{}])[0].get("kind", "?")
                ctx.report("crash:graph:%s" % kind,
                           "the replay process died with code %s while executing a TLC-generated sequence of family %s on the %s store "
                           "(memory corruption or abort inside the library): %s" % (rc, name, kind, json.dumps(plan)[:600]),
                           {"kind": kind, "rc": rc, "plan": plan, "crash": True})
                return None
            raise core.ToolError("vh-buffer graph (%s) exited with %s: %s" % (name, rc, out[-500:]))
        try:
            s = json.loads(out.strip().splitlines()[-1])
        except Exception:
            raise core.ToolError("vh-buffer graph (%s): no summary: %s" % (name, out[-500:]))
        tail = "\n".join(s.get("tlc_tail", []))
        viol = re.search(r"Error: (Invariant (\w+) is violated|Action property (\w+) is violated)", tail)
        if viol:
            what = viol.group(2) or viol.group(3)
            ctx.report("spec:%s" % what, "Buffer.tla itself violates %s in family %s (design error)" % (what, name), {"tlc": tail[-3000:]})
            return None
        if "error" in s or not s.get("paths"):
            raise core.ToolError("graph export (%s) unusable: %s %s" % (name, s.get("error"), s.get("tlc_tail", [])[-5:]))
        if "Model checking completed. No error has been found" not in tail:
            raise core.ToolError("TLC (%s) did not finish cleanly: %s" % (name, tail[-600:]))
        m = re.search(r"(\d+) states generated, (\d+) distinct states found", tail)
        if m:
            ctx.coverage["states"] += int(m.group(2))
            ctx.coverage["transitions"] += int(m.group(1))
        ctx.add_run("MC_Buffer %s: model check (invariants InitLeSpare Nested Contents OwnerBytes Untouched, action properties Frame "
                    "FrameTop WriteBack Refusal SliceReported RefusedCounts UserCounts) + graph walk" % name,
                    distinct=int(m.group(2)) if m else None, generated=int(m.group(1)) if m else None,
                    states=s["states"], edges=s["edges"], paths=s["paths"], steps=s["steps"], mismatches=s["mismatch_count"],
                    drift=s["drift_count"], edges_covered=s["edges_covered"], det_edges=s["det_edges"],
                    actions=s.get("actions", []), wall_s=round(time.time() - t0, 1))
        for smp in s.get("samples", [])[:1]:
            ctx.sample(smp)
        for mm in s.get("mismatches", []):
            n = s["mismatch_keys"].get(mm["key"], 1)
            kind = (mm["plan"] or [{}])[0].get("kind", "?")
            ctx.report(_norm(mm["key"]),
                       "%s store (%s): step %d (%s) of a TLC-generated sequence: specification expects %s, the code did %s "
                       "(%d sequences fail this way)" % (kind, name, mm["step"], json.dumps(mm["act"]), json.dumps(mm["expected"]),
                                                         json.dumps(mm["observed"]), n),
                       {"plan": mm["plan"], "step": mm["step"], "expected": mm["expected"], "observed": mm["observed"]})
        for key, n in s.get("drift_keys", {}).items():
            ctx.report_drift("%s: %d sequences follow a step the property allows but the detailed specification "
                             "does not (%s)" % (name, n, key))
        ctx.coverage["evaluations"] += s["paths"]
        ctx.coverage["distinct_nontrivial"] += s["nontrivial_paths"]
        ctx.coverage["transitions_replayed_on_impl"] = ctx.coverage.get("transitions_replayed_on_impl", 0) + s["steps"]
        core.log("[C19] %s: %s states, %s paths, %s steps, %d mismatches in %.0fs" % (
            name, s["states"], s["paths"], s["steps"], s["mismatch_count"], time.time() - t0))
        return s

    with _LOCK:
        return account()


# ----------------------------------------------------------------------------- direction B

def _drive(bins, seed, runs, maxcap, ops, path):
    rc, out = core.run_harness([os.path.join(bins, "vh-buffer"), "drive", str(seed), str(runs), str(maxcap), str(ops)],
                               timeout=300)
    if rc != 0:
        return rc, []
    open(path, "w").write(out)
    return 0, [json.loads(l) for l in out.splitlines() if l.strip()]


def _direction_b(ctx, bins, tier):
    # (runs, maxcap, ops per run)
    plans = [(40, 64, 40), (12, 700, 60)] if tier == "quick" else \
            [(150, 64, 50), (40, 700, 80), (40, 1500, 80), (6, 9000, 60), (150, 16, 60)]
    for i, (runs, maxcap, ops) in enumerate(plans):
        path = os.path.join(ctx.workdir, "trace_%d.ndjson" % i)
        rc, events = _drive(bins, ctx.seed * 100 + i, runs, maxcap, ops, path)
        if rc != 0:
            if rc in CRASH_SIGNALS:
                ctx.report("crash:drive", "the random driver died with code %s (memory corruption or abort inside the "
                           "library)" % rc, {"drive": [ctx.seed * 100 + i, runs, maxcap, ops], "crash": True})
                continue
            raise core.ToolError("vh-buffer drive exited with %s" % rc)
        label = "trace %d (seed %d, %d runs, capacity <= %d)" % (i, ctx.seed * 100 + i, runs, maxcap)
        ok, idx, res = _judge_trace(ctx, path, label)
        ctx.coverage["traces_validated_against_impl"] += 1
        ctx.coverage["evaluations"] += len(events)
        ctx.add_run("trace validation " + label, events=len(events), accepted=ok, wall_s=round(res.wall_s, 1))
        if i == 0 and events:
            ctx.sample({"trace_head": events[:8]})
        if not ok:
            ev = events[idx - 1] if idx and idx <= len(events) else {}
            ctx.report(_key_of_event(ev),
                       "%s: event %s is not a step of Buffer.tla%s: %s" % (
                           label, idx, (" (violates %s)" % res.violated) if res.violated else "", json.dumps(ev)[:600]),
                       {"plan": _run_of_event(events, idx or len(events))})
    return plans


def _binding_selftest(ctx, bins):
    """A corrupted and a shortened trace must be rejected by the trace specification."""
    path = os.path.join(ctx.workdir, "selftest.ndjson")
    rc, events = _drive(bins, 4242, 6, 32, 30, path)
    if rc != 0 or len(events) < 20:
        raise core.ToolError("binding self-test: no trace")
    ok, _, _ = _judge_trace(ctx, path, "self-test", report=False)
    if not ok:
        return  # the tree under test deviates; the main runs report it
    # (1) corrupt one logged field
    k = next(i for i, e in enumerate(events) if i > 5 and "rem" in e["out"])
    bad = [json.loads(json.dumps(e)) for e in events]
    bad[k]["out"]["rem"] += 1
    p1 = os.path.join(ctx.workdir, "selftest_corrupt.ndjson")
    open(p1, "w").write("\n".join(json.dumps(e) for e in bad) + "\n")
    ok1, idx1, _ = _judge_trace(ctx, p1, "self-test corrupt", report=False)
    # (2) drop one event that changes the state
    k2 = next(i for i, e in enumerate(events) if i > 5 and e["act"]["a"] in ("write", "extend", "advance")
              and len(e["act"]["bs"]) > 0 and e["out"]["r"] == "ok")
    p2 = os.path.join(ctx.workdir, "selftest_drop.ndjson")
    open(p2, "w").write("\n".join(json.dumps(e) for i, e in enumerate(events) if i != k2) + "\n")
    ok2, idx2, _ = _judge_trace(ctx, p2, "self-test drop", report=False)
    ctx.add_run("binding self-test", corrupted_rejected_at=idx1, corrupted_event=k + 1,
                dropped_rejected_at=idx2, dropped_event=k2 + 1)
    if ok1 or ok2:
        raise core.ToolError("binding self-test failed: corrupted trace accepted=%s, shortened trace accepted=%s" % (ok1, ok2))


# ----------------------------------------------------------------------------- Miri

RD_NAMES = ["slice", "mutref", "boxed", "bufreader", "file", "empty", "repeat", "take", "short", "chain", "err"]


def _rd(a):
    rd = a.get("rd") or {"k": "slice", "j": 0, "bs2": []}
    return "%d %d %d %s" % (RD_NAMES.index(rd["k"]), rd.get("j", 0), len(rd.get("bs2", [])), " ".join(map(str, rd.get("bs2", []))))


def _compact(plan):
    """JSON plan -> the compact line format of `vh-buffer run-lite` (no JSON inside Miri)."""
    parts = []
    nums = lambda xs: " ".join(map(str, xs))
    for a in plan:
        k = a["a"]
        if k == "setup":
            parts.append("S %s %d %d %s" % (a["kind"], a["cap"], a["len0"], nums(a["mem0"])))
        elif k == "open":
            parts.append("O %d %s" % (["with", "manual", "packer"].index(a.get("via", "with")), nums(a["ks"])))
        elif k == "extend":
            parts.append("E %d %s" % (["exact", "nohint", "under", "over"].index(a["it"]), nums(a["bs"])))
        elif k == "pk":
            parts.append("P %d %d %s" % (["raw", "rest", "string", "int", "data"].index(a["op"]), a["v"], nums(a["bs"])))
        elif k == "readclose":
            parts.append("Q %d %s %s" % (a["claim"], _rd(a), nums(a["bs"])))
        elif k == "overadvance":
            parts.append("V %d" % a["n"])
        elif k == "rawdirty":
            parts.append("D %d" % a["n"])
        elif k == "reopen":
            parts.append("N")
        elif k == "grow":
            parts.append("G %d %s" % (a["cap"], nums(a["tail"])))
        elif k == "user":
            parts.append("Y %d %d %d %s %s" % (["huffd", "huffc", "strbytes", "feed"].index(a["who"]), 1 if a.get("ret", True) else 0,
                                               len(a["bs"]), nums(a["bs"]), nums(a["ks"])))
        elif k == "touch":
            parts.append("T " + nums(a["ks"]))
        elif k in ("write", "advance", "scribble"):
            parts.append({"write": "W", "advance": "A", "scribble": "X"}[k] + " " + nums(a["bs"]))
        elif k == "read":
            parts.append("R %s %d %s %s" % (_rd(a), len(a["bs"]), nums(a["bs"]), nums(a["ks"])))
        else:
            parts.append({"close": "C", "closeinit": "I", "unwind": "U", "final": "F"}[k])
    return ";".join(parts)


def _miri(ctx, budget_s=420):
    """Execute TLC-generated edge-cover plans under Miri (Tree Borrows): an Undefined-Behavior
    report on these sequences is a violation of the memory-safety sentence of C19."""
    hd = core._harness_dir()
    plans = []
    for name in WALKS[ctx.tier]:
        p = os.path.join(ctx.workdir, "cover_%s.ndjson" % name)
        if os.path.exists(p):
            lines = [l for l in open(p).read().splitlines() if l.strip()]
            plans.append(lines)
    if not plans:
        ctx.assumptions.append("Miri step skipped: no cover plans")
        return
    env = dict(os.environ, MIRIFLAGS="-Zmiri-disable-isolation -Zmiri-tree-borrows", CARGO_NET_OFFLINE="true")
    t0 = time.time()
    try:
        b = subprocess.run(["cargo", "+nightly", "miri", "run", "--offline", "-p", "vh-buffer", "--bin", "vh-buffer", "--", "none"],
                           cwd=hd, env=env, stdout=subprocess.PIPE, stderr=subprocess.STDOUT, text=True, timeout=1500)
    except (subprocess.TimeoutExpired, OSError) as e:
        ctx.assumptions.append("memory-safety sentence of C19 not decided in this run: Miri could not be started (%s)" % e)
        return
    if "usage: vh-buffer" not in b.stdout:
        ctx.assumptions.append("memory-safety sentence of C19 not decided in this run: Miri build failed: %s" % b.stdout[-300:])
        core.log(b.stdout[-2000:])
        return
    build_s = time.time() - t0
    # interleave the stores, run in chunks until the budget is used
    order = []
    for i in range(max(len(p) for p in plans)):
        for p in plans:
            if i < len(p):
                order.append(p[i])
    done = 0
    ub = None
    chunk = 600
    nproc = 4
    t1 = time.time()
    pos = 0
    cmd = ["cargo", "+nightly", "miri", "run", "--offline", "-q", "-p", "vh-buffer", "--bin", "vh-buffer", "--", "run-lite"]

    def one(part):
        try:
            r = subprocess.run(cmd, cwd=hd, env=env, input="\n".join(_compact(json.loads(l)) for l in part) + "\n", stdout=subprocess.PIPE,
                               stderr=subprocess.PIPE, text=True, timeout=budget_s + 600)
            return part, r.returncode, r.stdout, r.stderr
        except subprocess.TimeoutExpired:
            return part, None, "", "timeout"

    from concurrent.futures import ThreadPoolExecutor
    with ThreadPoolExecutor(max_workers=nproc) as ex:
        while pos < len(order) and time.time() - t1 < budget_s and ub is None:
            parts = []
            for _ in range(nproc):
                part = order[pos:pos + chunk]
                if part:
                    parts.append(part)
                    pos += len(part)
            for part, rc, so, se in ex.map(one, parts):
                if "Undefined Behavior" in se:
                    # find the failing plan: bisect by re-running halves is expensive; re-run the chunk one by one natively is
                    # useless (no UB natively) -> report the chunk's first plan and the whole chunk as replay input
                    # which plan? bisect the chunk under Miri (UB is exceptional: the cost does not matter)
                    while len(part) > 1:
                        half = part[:len(part) // 2]
                        _, _, _, se2 = one(half)
                        part = half if "Undefined Behavior" in se2 else part[len(part) // 2:]
                    plan = json.loads(part[0])
                    msg = re.search(r"error: Undefined Behavior: (.*)", se)
                    where = re.search(r"--> (\S+)", se)
                    ub = (msg.group(1) if msg else "UB", where.group(1) if where else "", plan)
                elif rc != 0 or "LITE plans=%d " % len(part) not in so:
                    raise core.ToolError("Miri run failed (rc %s): %s %s" % (rc, so[-200:], se[-600:]))
                else:
                    done += len(part)
    ctx.add_run("Miri (tree borrows) on TLC-generated cover plans", plans_available=len(order), plans_executed=done,
                build_s=round(build_s, 1), wall_s=round(time.time() - t1, 1))
    ctx.coverage["miri_plans_executed"] = done
    if ub:
        ctx.report("miri-ub:%s" % ub[1], "Miri reports Undefined Behavior while executing a TLC-generated sequence: %s at %s"
                   % (ub[0], ub[1]), {"plan": ub[2], "miri": True})
    ctx.assumptions.append(
        "memory-safety sentence: not modelled in TLA+; %d of %d TLC-generated edge-cover sequences were executed under Miri "
        "(-Zmiri-tree-borrows) as execution vehicle, %s" % (done, len(order), "UB reported" if ub else "no Undefined Behavior reported"))


# ----------------------------------------------------------------------------- entry points

def run(ctx):
    tier = ctx.tier
    bins = core.build_harness(["vh-buffer"])
    ctx.coverage["rule"] = (
        "direction A: every path of <= MaxOps operations (open / nested open with and without cap_at, write, extend with iterators whose size_hint is exact / absent / under- / over-reporting, "
        "advance, scribble, read_buffer, read_buffer_ref on the view itself, counts above what is left given to advance / read_buffer_ref, intermediates dropped without use, close, close after initialized(), unwind) through the TLC-generated graph of "
        "MC_Buffer for each backing store, capacity and pre-existing length of the config, each executed on the real "
        "API; distinct by construction (different operation sequences); counted non-trivial when at least one operation "
        "carries >= 1 byte; evaluations additionally counts the events of the recorded random traces (direction B)")
    # 1. + 2. every family: TLC model-checks it and exports its graph, the walker replays every path on the real code
    sums = {}
    errs = []
    sem = threading.Semaphore(4 if tier == "quick" else 2)

    def fam(name):
        try:
            sums[name] = _direction_a(ctx, bins, tier, name, sem)
        except Exception as e:  # noqa
            errs.append(e)

    ths = [threading.Thread(target=fam, args=(n,)) for n in WALKS[tier]]
    for t in ths:
        t.start()
    for t in ths:
        t.join()
    if errs:
        raise errs[0]
    seen = set()
    for name, s in sums.items():
        if s:
            seen |= set(s.get("actions", []))
    never = [a for a in ACTION_NAMES if a not in seen]
    if never and all(sums.get(n) for n in WALKS[tier]):
        raise core.ToolError("vacuous configs: operations never taken in any family: %s" % never)
    ctx.coverage["exhaustive"] = True
    if tier == "thorough":
        # the large instance is model-checked only (too many paths to walk)
        for name in MODELS[tier]:
            res = core.run_tlc("MC_Buffer.tla", "%s.cfg" % name, cwd=SPECDIR, workers=8, timeout=1800, coverage=True)
            ctx.add_states(res, "MC_Buffer %s (model check only)" % name)
            if not res.ok:
                if res.violated:
                    ctx.report("spec:%s" % res.violated, "Buffer.tla itself violates %s in %s (design error)" % (res.violated, name),
                               {"tlc": res.out[-3000:]})
                    return
                raise core.ToolError("TLC failed on MC_Buffer %s: %s" % (name, res.error or res.out[-500:]))
            zero = [a for a in res.zero_actions if a.startswith("N")]
            if zero:
                raise core.ToolError("vacuous model-checking config %s: actions never taken: %s" % (name, zero))
    # 3. direction B
    _direction_b(ctx, bins, tier)
    ctx.assumptions += [
        "callers respect the documented obligations of the unsafe calls (advance(n) only with n <= remaining(), bytes "
        "written through uninitialized_mut() before they are counted); BufferRef::new and the ToBufferRef traits are used "
        "only through with_buffer",
        "Vec capacity is exactly what the harness allocates (checked at run time); ArrayVec capacities are the array "
        "sizes arrayvec 0.5 supports",
        "intended behaviour of cap_at(n) with n beyond the remaining capacity is the documented one ('no more than n bytes "
        "will be written'): the view is left uncapped (DESIGN.md D9)",
    ]
    if tier == "thorough":
        _binding_selftest(ctx, bins)
        _miri(ctx)
    else:
        ctx.assumptions.append("memory-safety sentence of C19 (no out-of-bounds / use-after-free access): not decided by the "
                               "quick tier; the thorough tier executes the TLC-generated sequences under Miri")


def replay(ctx, path):
    obj = json.load(open(path))
    ctx._nrep = 9000  # do not overwrite the replay files of the run that produced `path`
    rp = obj.get("replay", {})
    plan = rp.get("plan")
    if rp.get("drive"):
        bins = core.build_harness(["vh-buffer"])
        rc, out = core.run_harness([os.path.join(bins, "vh-buffer"), "drive"] + [str(x) for x in rp["drive"]], timeout=300)
        ctx.coverage["evaluations"] += 1
        ctx.coverage["distinct_nontrivial"] = 2
        ctx.sample({"drive": rp["drive"]})
        if rc in CRASH_SIGNALS:
            ctx.report(obj.get("key", "crash:drive"), "the random driver still dies with code %s" % rc, rp)
        else:
            print("replay: the random driver ran to completion (rc %s)" % rc)
        return
    if not plan:
        raise core.ToolError("replay file has no plan")
    bins = core.build_harness(["vh-buffer"])
    if rp.get("miri"):
        env = dict(os.environ, MIRIFLAGS="-Zmiri-disable-isolation -Zmiri-tree-borrows", CARGO_NET_OFFLINE="true")
        r = subprocess.run(["cargo", "+nightly", "miri", "run", "--offline", "-q", "-p", "vh-buffer", "--bin", "vh-buffer", "--", "run-lite"],
                           cwd=core._harness_dir(), env=env, input=_compact(plan) + "\n", stdout=subprocess.PIPE,
                           stderr=subprocess.PIPE, text=True, timeout=3000)
        print(r.stdout[-300:])
        if "Undefined Behavior" in r.stderr:
            print(r.stderr[-1500:])
            ctx.report(obj.get("key", "miri-ub"), "Miri still reports Undefined Behavior on the replayed sequence", rp)
        ctx.coverage["evaluations"] += 1
        ctx.coverage["distinct_nontrivial"] = 2
        ctx.sample({"plan": plan})
        return
    rc, out = core.run_harness([os.path.join(bins, "vh-buffer"), "run"], stdin=json.dumps(plan) + "\n", timeout=120)
    if rc != 0:
        if rc in CRASH_SIGNALS:
            ctx.report(obj.get("key", "crash:replay"), "replay process died with code %s" % rc, rp)
            return
        raise core.ToolError("vh-buffer run exited with %s" % rc)
    tp = os.path.join(ctx.workdir, "replay.ndjson")
    open(tp, "w").write(out)
    events = [json.loads(l) for l in out.splitlines() if l.strip()]
    for e in events:
        print(json.dumps(e))
    ok, idx, res = _judge_trace(ctx, tp, "replay")
    ctx.add_states(res, "replay trace validation")
    ctx.coverage["traces_validated_against_impl"] += 1
    ctx.coverage["evaluations"] += len(events)
    ctx.coverage["distinct_nontrivial"] = max(2, len(events))
    ctx.sample({"plan": plan})
    if not ok:
        ev = events[idx - 1] if idx and idx <= len(events) else {}
        ctx.report(obj.get("key", _key_of_event(ev)),
                   "replayed sequence is still rejected by Buffer.tla at event %s: %s" % (idx, json.dumps(ev)[:600]), rp)
    else:
        print("replay: sequence accepted by Buffer.tla (%d events)" % len(events))
