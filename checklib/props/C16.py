"""C16 -- datafile and map readers are total; accepted files are fully traversable.

Deciding specification: spec/datafile/Datafile.tla (the format of doc/datafile.md in both
directions: writer Layout/FileBytes, total reader Read, declarative ValidDoc).

 (A) DatafileMC.tla: TLC enumerates every small well-formed file (both versions) and every
     single-field corruption with boundary values (plus two consistent multi-field families),
     checks the format laws in every state and prints each case with the verdict and contents
     the spec computes.  vh-datafile (an independent writer) builds the file, opens it with
     datafile::Reader (file.rs) and raw::Reader, calls everything and compares.
 (M) Map.tla: the map format of doc/map.md (every accessor of map::Reader, every item struct of
     map::format) as total operators, plus a typed writer and the law "read back exactly as stored".
     MapGen.tla: well-formed maps of every item version (three base profiles and every single-choice
     deviation) and every single-word corruption / truncation of their items; TLC checks the laws
     and prints each case with the expected outcome and value of every call.  vh-datafile calls
     every accessor of map::Reader and every item struct and compares; MapTrace.tla judges the
     recorded calls (no panic/hang, every index handed out in range).
 (U) DfBuffer.tla: every short history of add_item / add_data on datafile::buffer::Buffer (the
     crate's in-memory builder; there is no file writer): results, every accessor, and the
     content laid out as Datafile!Layout says is read back by the real readers (deviations of the
     Buffer itself are DRIFT: C16 is about the readers).
 (B) vh-datafile drive: seeded real-size files written with the repository's zlib compressor,
     truncation at every position, field fuzz, corrupt/oversized compressed blocks, random
     bytes; DatafileTrace.tla validates the recorded trace (alphabet {ok(content), error(kind)}).

Verdicts: panic / hang / a well-formed file not read back exactly = VIOLATION.  A different
answer on a malformed file (other error kind, accept instead of reject ...) = DRIFT.
"""
import json
import os
import re
import shutil
import threading
import time

from checklib import core

LEVEL = "model_checking"
LOCK = threading.RLock()      # ctx is shared by the worker threads
CWD = os.path.join(core.SPEC, "datafile")

FIELD_FAMILIES = ["none", "magic", "version", "size", "swaplen", "nit", "ni", "nd", "si", "sd",
                  "nit+fix", "ni+fix", "nd+fix", "si+fix", "sd+fix", "t_id", "t_start", "t_num",
                  "ioff", "doff", "dsize", "it_tid", "it_id", "it_size", "it_shift", "it_w", "dbyte"]
# every family must also have run on the crude (V4Crude) header variants of the bases
FIELD_FAMILIES += ["crude/" + f for f in FIELD_FAMILIES if "+fix" not in f] + ["crude/nd", "crude/sd"]
VERDICTS = ["ok", "WrongMagic", "UnsupportedVersion", "MalformedHeader", "TooShort", "Malformed",
            "data:ok", "data:CompressionError", "data:CompressionWrongSize", "data:unspec",
            "ver:V3", "ver:V4", "ver:V4Crude"]


def _scratch(ctx):
    """Per-run scratch directory for the files handed to the readers: tmpfs when available
    (ext4 with discard costs ~0.4 ms per tiny file), removed in run()'s finally."""
    base = "/dev/shm" if os.path.isdir("/dev/shm") and os.access("/dev/shm", os.W_OK) else ctx.workdir
    d = os.path.join(base, "verif-C16-%d" % os.getpid())
    shutil.rmtree(d, ignore_errors=True)
    os.makedirs(d, exist_ok=True)
    return d


def _jenv(ctx):
    """TLC unpacks its standard modules into java.io.tmpdir: keep that under work/."""
    d = os.path.join(ctx.workdir, "jtmp")
    os.makedirs(d, exist_ok=True)
    return {"JAVA_TOOL_OPTIONS": "-Djava.io.tmpdir=" + d}


def _json_lines(out):
    res = []
    for line in out.splitlines():
        line = line.strip()
        if line.startswith("{"):
            try:
                res.append(json.loads(line))
            except ValueError:
                pass
    return res


def _tlc_result_from_tail(objs, what):
    """The harness forwards TLC's own (non-case) output as {"kind":"tlc","tail":[...]}."""
    res = core.TlcResult()
    tail = []
    for o in objs:
        if o.get("kind") == "tlc":
            tail = o.get("tail", [])
    res.out = "\n".join(tail)
    res.rc = 0
    core.parse_tlc(res.out, res)
    if not res.ok:
        core.log("[tlc] %s did not finish cleanly:\n%s" % (what, res.out[-3000:]))
    return res


def _panic_key(stage, loc, msg):
    stage = "open" if stage in ("open", "raw:new") else stage.replace("raw:", "")
    f = re.sub(r":\d+$", "", loc or "?")
    return "panic:%s:%s:%s" % (stage, f, (msg or "")[:110])


# ---------------------------------------------------------------------------------------- (A)

def _judge_A(ctx, objs, rc, out, tier_label):
    """Classifies the replay output of direction A."""
    summary = None
    groups = {}
    for o in objs:
        k = o.get("kind")
        if k == "summary":
            summary = o
        elif k in ("writer-mismatch", "bad-line"):
            raise core.ToolError("direction A binding error (%s): %s" % (k, json.dumps(o)[:600]))
        elif k == "panic":
            p = o["panic"]
            key = _panic_key(p.get("stage", ""), p.get("loc", ""), p.get("msg", ""))
            g = groups.setdefault(key, {"n": 0, "first": o, "viol": True,
                                        "msg": "the reader panicked: %s at %s (stage %s)" % (
                                            p.get("msg"), p.get("loc"), p.get("stage"))})
            g["n"] += 1
        elif k == "mismatch":
            case = o["case"]
            exp_open = case["exp"]["open"]
            act_open = o["act"].get("open")
            cf = case["c"]["f"] + ("+fix" if case["c"].get("fix") else "")
            fields = ",".join(o.get("fields", []))
            if set(o.get("fields", [])) <= {"ver"}:
                # the name of the version variant (V3 / V4 / V4Crude) is a detail, not content
                key = "drift:%s:%s:version-name" % (o.get("flavour"), cf)
                msg = "version variant reported as %s, spec %s (corruption %s)" % (o["act"].get("ver"), case["exp"].get("ver"), cf)
                viol = False
            elif case.get("wf"):
                key = "wf-not-read-back:%s:v%s:%s:%s" % (o.get("flavour"), case["v"], fields, act_open)
                msg = "a well-formed version %s file was not read back as stored (reader flavour '%s': %s; open=%s)" % (
                    case["v"], o.get("flavour"), fields, act_open)
                viol = True
            elif case.get("doc") and exp_open == "ok" and act_open == "ok":
                key = "accepted-content-differs:%s:%s:%s" % (o.get("flavour"), cf, fields)
                msg = "a file that is well-formed by the document and was accepted is returned with other content (reader flavour '%s': %s after corruption %s)" % (o.get("flavour"), fields, cf)
                viol = True
            else:
                key = "drift:%s:%s:spec=%s:impl=%s:%s" % (o.get("flavour"), cf, exp_open, act_open, fields)
                msg = "corruption %s: spec verdict %s, reader (%s) %s (%s)" % (cf, exp_open, o.get("flavour"), act_open, fields)
                viol = False
            g = groups.setdefault(key, {"n": 0, "first": o, "viol": viol, "msg": msg})
            g["n"] += 1
    if rc == 97:
        m = re.search(r"^HANG (.*)$", out, re.M)
        case = m.group(1) if m else "{}"
        ctx.report("hang:A:" + case[:120], "a reader call did not return within 20 s (watchdog)",
                   {"kind": "hang", "case": case})
    elif rc != 0:
        ctx.report("crash:A:rc=%s" % rc, "the harness process died (exit %s) while the readers ran" % rc,
                   {"kind": "crash", "rc": rc, "tail": out[-2000:]})
    if summary is None and rc == 0:
        raise core.ToolError("direction A: no summary from the harness")
    for key, g in sorted(groups.items()):
        o = g["first"]
        if g["viol"]:
            ctx.report(key, "%s [%d cases, %s]" % (g["msg"], g["n"], tier_label), o["case"])
        else:
            ctx.report_drift("%s [%d cases]" % (g["msg"], g["n"]))
    return summary


def _run_A(ctx, bins, scratch, cfg, workers, timeout, label, result):
    try:
        d = os.path.join(scratch, "a-" + label)
        tres, rc, out = core.tlc_pipe("DatafileCases.tla", cfg, [bins + "/vh-datafile", "replay", d],
                                      cwd=CWD, workers=workers, timeout=timeout, heap="6g", env=_jenv(ctx))
        result["A:" + label] = (rc, out, tres.wall_s)
    except Exception as e:  # noqa: BLE001 -- re-raised in the main thread
        result["A:" + label] = e


# ---------------------------------------------------------------------------------------- (M)

def _run_M(ctx, bins, scratch, cfg, timeout, result):
    try:
        trace = os.path.join(ctx.workdir, "map-trace.ndjson")
        workers = 4 if ctx.tier == "quick" else 6
        cap = int(os.environ.get("C16_TLC_WORKERS", "0") or "0")
        if cap:
            workers = min(workers, cap)
        tres, rc, out = core.tlc_pipe("MapCases.tla", cfg,
                                      [bins + "/vh-datafile", "map-replay", os.path.join(scratch, "m"), trace],
                                      cwd=CWD, workers=workers, timeout=timeout, stack="64m", env=_jenv(ctx))
        if rc == 0 and os.path.exists(trace) and os.path.getsize(trace) > 0:
            _validate_chunks(ctx, "MapTrace.tla", trace, "map")
        result["M"] = (rc, out, trace, tres.wall_s)
    except Exception as e:  # noqa: BLE001
        result["M"] = e


MAP_REQUIRED = (
    ["%s:%s" % (f, o) for f in ("version", "info", "image", "group", "layer", "tiles", "game_layers", "string", "settings",
                                "image_name", "layer_tiles_raw", "tele_layer_tiles_raw", "speedup_layer_tiles_raw",
                                "switch_layer_tiles_raw", "tune_layer_tiles_raw") for o in ("ok", "err")]
    + ["gl.%s:ok" % k for k in ("game", "front", "teleport", "speedup", "switch", "tune")]
    + ["layer-kind:tilemap:%d" % k for k in (0, 1, 2, 4, 8, 16, 32)] + ["layer-kind:3", "layer-kind:10"]
    + ["part:%s:%s" % (n, r) for n in ("InfoV1", "ImageV1", "ImageV2", "EnvelopeV1", "EnvelopeV2", "EnvelopeV1Legacy",
                                        "GroupV1", "GroupV2", "GroupV3", "LayerV1TilemapV2", "LayerV1TilemapV3",
                                        "LayerV1QuadsV1", "LayerV1QuadsV2", "LayerV1DdraceSoundsV1",
                                        "LayerV1DdraceSoundsV2", "DdraceSoundV1") for r in ("some", "none", "short")]
    + ["part:ExtraRace:some", "part:ExtraRace:none", "part:EnvpointV1:some", "part:EnvpointV1:none",
       "part:EnvpointV2:some", "part:EnvpointV2:none", "part:InfoV2:some", "part:InfoV2:short", "part:LayerV1:short"])


def _judge_map_mismatch(ctx, cls, m, case, n, label):
    """One group of differences between what Map.tla computed for a generated map and what
    map::Reader / map::format returned.  cls: 'wf' (the uncorrupted output of the spec's writer),
    'valid' (corrupted, but still a well-formed map by Map!MapValid), 'other'."""
    what, f = m.get("what"), m.get("f")
    if what in ("not-called", "part-not-called"):
        raise core.ToolError("map binding error: the harness did not make the expected call %s(%s)" % (f, m.get("a")))
    sw = json.dumps(case.get("sw"))
    if cls == "wf":
        key = "map-wf-not-read-back:%s:%s" % (f, what)
        msg = ("a well-formed map written from the typed abstract map is not read back as stored: %s(%s) expected %s, got %s "
               "[%d differences, %s]" % (f, m.get("a"), json.dumps(m.get("exp"))[:200], json.dumps(m.get("act"))[:200], n, label))
        ctx.report(key, msg, case)
    elif cls == "valid" and what in ("val", "part-val", "redundant"):
        key = "map-content-differs:%s:%s" % (f, what)
        msg = ("a map that is well-formed by the document (corruption %s keeps it valid) is returned with other content: "
               "%s(%s) expected %s, got %s [%d differences, %s]" % (
                   sw, f, m.get("a"), json.dumps(m.get("exp"))[:200], json.dumps(m.get("act"))[:200], n, label))
        ctx.report(key, msg, case)
    else:
        ctx.report_drift("map %s(%s) after corruption %s: Map.tla says %s, the reader %s (%s) [%d cases]" % (
            f, m.get("a"), sw, json.dumps(m.get("exp"))[:80], json.dumps(m.get("act"))[:80], what, n))


# ---------------------------------------------------------------------------------------- (U)

def _run_U(ctx, bins, scratch, cfg, timeout, result):
    """datafile::buffer::Buffer: every history of DfBuffer.tla replayed on the real Buffer."""
    try:
        tres, rc, out = core.tlc_pipe("DfBufferCases.tla", cfg, [bins + "/vh-datafile", "buffer-replay", os.path.join(scratch, "u")],
                                      cwd=CWD, workers=2, timeout=timeout, env=_jenv(ctx))
        result["U"] = (rc, out, tres.wall_s)
    except Exception as e:  # noqa: BLE001
        result["U"] = e


def _judge_U(ctx, rc, out, wall, cfg):
    objs = _json_lines(out)
    tres = _tlc_result_from_tail(objs, "DfBuffer " + cfg)
    tres.wall_s = wall
    ctx.add_states(tres, "DfBuffer %s: buffer histories, writer form + round trip through Layout/Read in every state" % cfg)
    if tres.violated or tres.error:
        ctx.report("spec-law:DfBuffer", "TLC reports %s in DfBuffer: %s" % (tres.violated or "an error", (tres.error or "")[:400]),
                   {"kind": "spec", "tail": tres.out[-3000:]})
    if rc == 97:
        ctx.report_drift("datafile::buffer::Buffer: a call did not return within 20 s (outside the text of C16)")
        return
    if rc != 0:
        raise core.ToolError("buffer replay died (exit %s): %s" % (rc, out[-500:]))
    summ = None
    for o in objs:
        if o.get("kind") == "summary":
            summ = o
        elif o.get("kind") == "bad-line":
            raise core.ToolError("buffer replay: unparsable case line from TLC")
        elif o.get("kind") == "buffer-finding":
            g = o["group"]
            first = o["first"]
            if g.startswith("readback-"):
                # a well-formed file (the buffer's content laid out as Datafile!Layout says) not read back
                ctx.report("wf-not-read-back:buffer:%s" % g.replace("|", ":"),
                           "the content of a Buffer, laid out by the independent writer, is not read back as stored (%s) [%d cases]" % (g, o["n"]),
                           {"kind": "buffer", "case": first["case"]})
            else:
                # Buffer is not a reader: nothing in the text of C16 covers it
                ctx.report_drift("datafile::buffer::Buffer deviates from DfBuffer.tla: %s (history %s) [%d cases]" % (
                    g, json.dumps(first["case"].get("ops"))[:300], o["n"]))
    if summ is None:
        raise core.ToolError("buffer replay: no summary")
    if not summ["cases"] or not summ["refused_calls"]:
        raise core.ToolError("vacuous buffer enumeration: %s" % summ)
    ctx.add_run("buffer replay", cases=summ["cases"], refused_calls=summ["refused_calls"],
                files_read_back=summ["files_read_back"], findings=summ["findings"], wall_s=round(wall, 1))
    return summ


def _validate_chunks(ctx, module, trace, what, max_rounds=6, timeout=900):
    """Validates a trace; on rejection reports the rejected event and continues behind it, so
    that one defect does not hide the rest of the trace. Returns (events, drift lines)."""
    events = core.read_ndjson(trace)
    offset = 0
    drift = []
    accepted_all = True
    rounds = 0
    cur = trace
    while True:
        rounds += 1
        ok, res = core.validate_trace(module, "Trace.cfg", cur, cwd=CWD, timeout=timeout, heap="6g",
                                      extra_env=_jenv(ctx))
        with LOCK:
            ctx.add_states(res, "%s trace validation (%d events)" % (what, len(events) - offset))
        drift += re.findall(r'^<<"DRIFT".*$', res.out, re.M)
        if "SPEC-LAW-FAIL" in res.out:
            m = re.search(r'<<"SPEC-LAW-FAIL ([^"]*)", (\d+)>>', res.out)
            raise core.ToolError("%s: the specification's own law failed on a recorded file (%s)" % (
                what, m.group(0) if m else "?"))
        m = re.search(r"TRACE REJECTED at event\D+(\d+)", res.out)
        if ok and not m:
            with LOCK:
                ctx.coverage["traces_validated_against_impl"] += 1
            break
        if not m:
            raise core.ToolError("%s trace validation failed: %s" % (what, (res.error or res.out[-1500:])))
        accepted_all = False
        d = int(m.group(1))             # 1-based index within the current chunk
        ev = events[offset + d - 1]
        with LOCK:
            _report_event(ctx, what, ev, trace, offset + d)
        offset += d
        if offset >= len(events) or rounds >= max_rounds:
            break
        cur = trace + ".rest%d" % rounds
        with open(cur, "w") as fh:
            for e in events[offset:]:
                fh.write(json.dumps(e) + "\n")
    return events, drift, accepted_all


def _report_event(ctx, what, ev, trace, lineno):
    """Names the rejected event (TLC decided; this only builds the key and the replay file)."""
    if what == "map":
        case = {"kind": "map", "sw": ev.get("sw"), "v": ev.get("v")}
        side = trace + ".cases"
        if os.path.exists(side):
            with open(side) as fh:
                for i, line in enumerate(fh, 1):
                    if i == lineno:
                        case = json.loads(line)
                        break
        ps = ev.get("panics") or []
        if ps:
            p = ps[0]
            key = "panic:map.%s:%s:%s" % (p.get("f"), re.sub(r":\d+$", "", p.get("loc", "?")), p.get("msg", "")[:110])
            msg = "map::Reader::%s panicked: %s at %s (sweep %s)" % (p.get("f"), p.get("msg"), p.get("loc"), json.dumps(ev.get("sw")))
        else:
            bad = [c for c in ev.get("calls", []) if c.get("out") not in ("ok", "err")]
            key = "map-rejected:%s" % (bad[0]["f"] if bad else "index-out-of-range")
            msg = "MapTrace.tla rejects the calls recorded for sweep %s (open=%s)" % (json.dumps(ev.get("sw")), ev.get("open"))
        ctx.report(key, msg, case)
        return
    fp, rp, op = ev.get("file_panic", {}), ev.get("raw_panic", {}), ev.get("off_panic", {})
    p = fp if fp.get("msg") else (rp if rp.get("msg") else op)
    # which reader flavour deviates from datafile::Reader::open (file) -- for the key only
    which = "file" if ev.get("off_same", True) and ev.get("raw_same", True) else \
        ("offset" if not ev.get("off_same", True) else "raw")
    if p.get("msg"):
        key = _panic_key(p.get("stage", ""), p.get("loc", ""), p.get("msg", ""))
        msg = "the reader panicked on a recorded file (%s): %s at %s" % (ev.get("mut"), p.get("msg"), p.get("loc"))
    elif ev.get("wf"):
        key = "wf-not-read-back:%s:B:%s" % (which, ev["file"].get("open"))
        msg = "a well-formed file written by the independent writer was not read back as stored (reader flavour '%s', open=%s)" % (which, ev["file"].get("open"))
    else:
        key = "trace-rejected:%s:%s:%s" % (which, str(ev.get("mut")).split(":")[0], ev["file"].get("open"))
        msg = "DatafileTrace.tla rejects the event (mutation %s, reader flavour '%s', open=%s)" % (ev.get("mut"), which, ev["file"].get("open"))
    ctx.report(key, msg, {k: ev[k] for k in ("mut", "wf", "stored", "probes", "bytes", "z")})


def _binding_selftest(ctx, b_events, mtrace):
    """Demonstrates that the trace specs really bind: a recorded trace with one logged field
    corrupted (an item word / a data byte of a well-formed file's read-back, an outcome turned
    into "panic", a handed-out index moved out of range) must be REJECTED by TLC."""
    import copy
    tampered = []
    wf = [e for e in b_events if e.get("wf") and e["file"].get("items") and e["file"].get("data")]
    if wf:
        e = copy.deepcopy(wf[0])
        it = next((x for x in e["file"]["items"] if x["w"]), None)
        if it is not None:
            it["w"][0] ^= 1
            tampered.append(("item word of a read-back changed", "DatafileTrace.tla", [wf[0], e]))
        e2 = copy.deepcopy(wf[0])
        blk = next((d for d in e2["file"]["data"] if d["b"]), None)
        if blk is not None:
            blk["b"][-1] ^= 0x80
            tampered.append(("data byte of a read-back changed", "DatafileTrace.tla", [wf[0], e2]))
    if b_events:
        e3 = copy.deepcopy(b_events[0])
        e3["file"]["open"] = "panic"
        tampered.append(("outcome replaced by panic", "DatafileTrace.tla", [e3]))
    if mtrace and os.path.exists(mtrace):
        with open(mtrace) as fh:
            m0 = json.loads(fh.readline())
        m1 = copy.deepcopy(m0)
        for c in m1["calls"]:
            if c["idx"]:
                c["idx"][0]["v"] = 10 ** 6
                break
        tampered.append(("handed-out index moved out of range", "MapTrace.tla", [m0, m1]))
        m2 = copy.deepcopy(m0)
        m2["calls"][0]["out"] = "panic"
        tampered.append(("map call outcome replaced by panic", "MapTrace.tla", [m2]))
    results = []
    for i, (what, module, evs) in enumerate(tampered):
        pth = os.path.join(ctx.workdir, "tampered-%d.ndjson" % i)
        with open(pth, "w") as fh:
            for e in evs:
                fh.write(json.dumps(e) + "\n")
        ok, res = core.validate_trace(module, "Trace.cfg", pth, cwd=CWD, timeout=600, extra_env=_jenv(ctx))
        rejected = (not ok) and "TRACE REJECTED" in res.out
        results.append({"tampering": what, "module": module, "rejected": rejected})
        if not rejected:
            raise core.ToolError("binding self-test: a tampered trace (%s) was NOT rejected by %s" % (what, module))
    ctx.coverage["binding_selftest"] = results


# ---------------------------------------------------------------------------------------- Miri

def _run_miri(ctx, scratch, result):
    """Thorough tier: a sample of the TLC-generated cases (every 80th state of Exp_quick, all
    families) is executed on raw::Reader under Miri (nightly toolchain, if installed): an
    out-of-bounds / uninitialised / misaligned read on such a case is an error of the interpreter.
    This is an execution vehicle for the replay, not a second oracle (DESIGN section 7). Stacked
    Borrows checking is off: `libtw2_common::slice::transmute_mut` derives a mutable slice from
    `as_ptr()`, an aliasing-model violation outside what C16 states (see docs/datafile.md, D10c)."""
    import subprocess
    try:
        probe = subprocess.run(["cargo", "+nightly", "miri", "--version"], stdout=subprocess.PIPE,
                               stderr=subprocess.STDOUT, text=True, timeout=120)
        if probe.returncode != 0:
            result["miri"] = {"available": False, "why": probe.stdout.strip()[:200]}
            return
        tres, rc, out = core.tlc_pipe("DatafileCases.tla", "Exp_quick.cfg",
                                      ["awk", '/^<<"C"/ { if (n++ % 80 == 0) print }'],
                                      cwd=CWD, workers=2, timeout=1200, env=_jenv(ctx))
        sample = os.path.join(ctx.workdir, "miri-cases.txt")
        with open(sample, "w") as fh:
            fh.write(out)
        ncases = out.count("\n")
        hd = core._harness_dir()
        env = dict(os.environ, MIRIFLAGS="-Zmiri-disable-isolation -Zmiri-disable-stacked-borrows",
                   CARGO_NET_OFFLINE="true")
        t0 = time.time()
        with open(sample) as fin:
            r = subprocess.run(["cargo", "+nightly", "miri", "run", "--offline", "-p", "vh-datafile", "--", "replay-mem"],
                               cwd=hd, env=env, stdin=fin, stdout=subprocess.PIPE, stderr=subprocess.STDOUT,
                               text=True, timeout=3000)
        result["miri"] = {"available": True, "rc": r.returncode, "out": r.stdout[-20000:], "cases": ncases,
                          "wall_s": round(time.time() - t0, 1)}
    except subprocess.TimeoutExpired:
        result["miri"] = {"available": True, "timeout": True}
    except Exception as e:  # noqa: BLE001
        result["miri"] = e


def _judge_miri(ctx, m):
    if isinstance(m, Exception):
        raise m
    if not m.get("available"):
        ctx.note("Miri not available (%s): the out-of-bounds clause is only covered by panics" % m.get("why", ""))
        return
    if m.get("timeout"):
        ctx.note("Miri run timed out (machine load); not counted")
        return
    out = m["out"]
    ms = re.search(r"MEM-SUMMARY cases=(\d+) mismatches=(\d+) miri=true", out)
    ub = re.search(r"error: Undefined Behavior: (.*)", out)
    if ub:
        loc = re.search(r"-->\s*(\S+)", out[ub.start():])
        where = loc.group(1) if loc else "?"
        if core.repo_root() in where or "/repo/" in where:
            rel = re.sub(r"^.*?/(datafile|common|map|zlib-minimal)/", r"\1/", where)
            ctx.report("miri-ub:%s:%s" % (re.sub(r":\d+:\d+$", "", rel), ub.group(1)[:80]),
                       "Miri reports undefined behaviour in the reader on a TLC-generated case: %s at %s" % (ub.group(1), where),
                       {"kind": "miri", "tail": out[-4000:]})
        else:
            ctx.note("Miri stopped outside the library (%s: %s); not counted" % (where, ub.group(1)[:100]))
        return
    if not ms:
        ctx.note("Miri run did not complete (rc=%s): %s" % (m.get("rc"), out[-300:].replace("\n", " | ")))
        return
    for line in re.findall(r"^MEM-MISMATCH.*$", out, re.M)[:5]:
        # the same cases run natively in direction A and are judged there; under Miri only UB counts
        ctx.note("under Miri: " + line)
    ctx.add_run("Miri (raw::Reader on a sample of the TLC cases; UB = error)", cases=int(ms.group(1)),
                mismatches=int(ms.group(2)), wall_s=m.get("wall_s"),
                flags="-Zmiri-disable-isolation -Zmiri-disable-stacked-borrows")
    ctx.coverage["miri_cases_without_ub"] = int(ms.group(1))


# ---------------------------------------------------------------------------------------- run

def run(ctx):
    bins = core.build_harness(["vh-datafile"])
    scratch = _scratch(ctx)
    quick = ctx.tier == "quick"
    try:
        _run(ctx, bins, scratch, quick)
    finally:
        shutil.rmtree(scratch, ignore_errors=True)


def _run(ctx, bins, scratch, quick):
    results = {}
    threads = []
    a_jobs = [("quick", "Exp_quick.cfg", 4, 900)] if quick else \
             [("small", "Exp_small.cfg", 3, 2400), ("thorough", "Exp_thorough.cfg", 8, 3000)]
    cap = int(os.environ.get("C16_TLC_WORKERS", "0") or "0")      # development on a shared machine
    if cap:
        a_jobs = [(l, c, min(w, cap), t) for (l, c, w, t) in a_jobs]
    for label, cfg, workers, to in a_jobs:
        threads.append(threading.Thread(target=_run_A, args=(ctx, bins, scratch, cfg, workers, to, label, results)))
    threads.append(threading.Thread(target=_run_M, args=(
        ctx, bins, scratch, "Map_quick.cfg" if quick else "Map_thorough.cfg", 900 if quick else 2400, results)))
    threads.append(threading.Thread(target=_run_U, args=(
        ctx, bins, scratch, "Buf_quick.cfg" if quick else "Buf_thorough.cfg", 900 if quick else 2400, results)))
    if not quick and os.environ.get("C16_NO_MIRI", "") == "":
        threads.append(threading.Thread(target=_run_miri, args=(ctx, scratch, results)))
    if not quick:
        # action coverage of the (non-exporting) quick configuration: vacuity check of the spec
        def _cov():
            try:
                results["cov"] = core.run_tlc("DatafileCases.tla", "MC_quick.cfg", cwd=CWD, workers=2, timeout=1800,
                                              coverage=True, env=_jenv(ctx))
            except Exception as e:  # noqa: BLE001
                results["cov"] = e
        threads.append(threading.Thread(target=_cov))
    for t in threads:
        t.start()
        time.sleep(0.05)      # core's TLC metadir names have millisecond resolution

    # (B) runs in the main thread meanwhile
    trace = os.path.join(ctx.workdir, "drive.ndjson")
    n_b = 200 if quick else 2500
    rc, out = core.run_harness([bins + "/vh-datafile", "drive", os.path.join(scratch, "b"), str(ctx.seed), str(n_b),
                                "quick" if quick else "thorough", trace], timeout=900)
    b_summary = None
    if rc == 97:
        m = re.search(r"^HANG (.*)$", out, re.M)
        ctx.report("hang:B", "a reader call did not return within 20 s (watchdog)",
                   {"kind": "hang", "case": (m.group(1) if m else "")[:100000]})
    elif rc != 0:
        ctx.report("crash:B:rc=%s" % rc, "the harness process died (exit %s) in the random driver" % rc,
                   {"kind": "crash", "rc": rc, "seed": ctx.seed})
    else:
        for o in _json_lines(out):
            if o.get("kind") == "summary":
                b_summary = o
    b_events, b_drift = [], []
    if os.path.exists(trace) and os.path.getsize(trace) > 0:
        # split into chunks (TLC parses the whole NDJSON file up front)
        evs = core.read_ndjson(trace)
        chunk = 700 if quick else 450
        parts = [evs[i:i + chunk] for i in range(0, len(evs), chunk)]
        bres = {}

        def _val(pi, pth):
            try:
                bres[pi] = _validate_chunks(ctx, "DatafileTrace.tla", pth, "datafile")
            except Exception as e:  # noqa: BLE001
                bres[pi] = e
        bthreads = []
        sem = threading.Semaphore(3)

        def _val_limited(pi, pth):
            with sem:
                _val(pi, pth)
        for pi, part in enumerate(parts):
            pth = os.path.join(ctx.workdir, "drive-%d.ndjson" % pi)
            with open(pth, "w") as fh:
                for e in part:
                    fh.write(json.dumps(e) + "\n")
            t = threading.Thread(target=_val_limited, args=(pi, pth))
            t.start()
            time.sleep(0.05)
            bthreads.append(t)
        for t in bthreads:
            t.join()
        for pi in sorted(bres):
            if isinstance(bres[pi], Exception):
                raise bres[pi]
            ev, dr, _ = bres[pi]
            b_events += ev
            b_drift += dr
    for line in b_drift[:50]:
        ctx.report_drift("direction B: " + line)

    for t in threads:
        t.join()
    for k, v in results.items():
        if isinstance(v, Exception):
            raise v
    if "miri" in results:
        _judge_miri(ctx, results["miri"])
    if "cov" in results:
        cres = results["cov"]
        ctx.add_states(cres, "DatafileMC MC_quick.cfg with -coverage 1 (laws only)")
        if not cres.ok:
            ctx.report("spec-law:%s" % (cres.violated or "error"), "TLC reports %s in DatafileMC (MC_quick.cfg)" % (
                cres.violated or (cres.error or "")[:300]), {"kind": "spec", "tail": cres.out[-3000:]})
        if cres.zero_actions:
            raise core.ToolError("vacuity: actions never taken in MC_quick.cfg: %s" % cres.zero_actions)

    # ---- (A)
    total_cases = 0
    distinct = 0
    fams = {}
    verds = {}
    for label, cfg, workers, to in a_jobs:
        rc, out, wall = results["A:" + label]
        objs = _json_lines(out)
        tres = _tlc_result_from_tail(objs, "DatafileMC " + cfg)
        tres.wall_s = wall
        ctx.add_states(tres, "DatafileMC %s: format laws in every state + case export" % cfg)
        if tres.violated or tres.error:
            # the specification's own laws (round trip, ValidDoc => accept, totality) failed
            ctx.report("spec-law:%s" % (tres.violated or "error"),
                       "TLC reports %s in DatafileMC (%s): %s" % (tres.violated or "an error", cfg, (tres.error or "")[:400]),
                       {"kind": "spec", "cfg": cfg, "tail": tres.out[-3000:]})
        elif not tres.ok and rc == 0:
            raise core.ToolError("TLC did not complete for %s" % cfg)
        summary = _judge_A(ctx, objs, rc, out, cfg)
        if summary:
            total_cases += summary["cases"]
            distinct += summary["distinct_files"]
            for f, n in summary.get("by_field", {}).items():
                fams[f] = fams.get(f, 0) + n
            for f, n in summary.get("by_verdict", {}).items():
                verds[f] = verds.get(f, 0) + n
            for s in summary.get("samples", [])[:2]:
                ctx.sample({"direction": "A", "case": s})
            ctx.add_run("replay %s" % cfg, cases=summary["cases"], distinct_files=summary["distinct_files"],
                        wf=summary["wf"], doc_valid=summary["doc_valid"], spec_accepts=summary["spec_accepts"],
                        spec_rejects=summary["spec_rejects"], mismatches=summary["mismatches"],
                        panics=summary["panics"], wall_s=round(wall, 1))
    missing = [f for f in FIELD_FAMILIES if not fams.get(f)] + [x for x in VERDICTS if not verds.get(x)]
    if missing and total_cases:
        raise core.ToolError("vacuous enumeration: no case for %s" % missing)
    ctx.coverage["cases_by_corrupted_field"] = fams
    ctx.coverage["cases_by_spec_verdict"] = verds

    # ---- (U)
    rc, out, wall = results["U"]
    usum = _judge_U(ctx, rc, out, wall, "Buf_quick.cfg" if quick else "Buf_thorough.cfg")

    # ---- (M)
    rc, out, mtrace, wall = results["M"]
    objs = _json_lines(out)
    mres = _tlc_result_from_tail(objs, "MapGen")
    mres.wall_s = wall
    ctx.add_states(mres, "MapGen: generator of map-shaped well-formed datafiles")
    if mres.violated or mres.error:
        ctx.report("spec-law:MapGen", "TLC reports %s in MapGen: %s" % (mres.violated or "an error", (mres.error or "")[:400]),
                   {"kind": "spec", "tail": mres.out[-3000:]})
    if rc == 97:
        m = re.search(r"^HANG (.*)$", out, re.M)
        ctx.report("hang:map", "a map::Reader call did not return within 20 s (watchdog)",
                   {"kind": "hang", "case": m.group(1) if m else ""})
    elif rc != 0:
        ctx.report("crash:map:rc=%s" % rc, "the harness process died (exit %s) in the map replay" % rc,
                   {"kind": "crash", "rc": rc})
    msum = None
    for o in objs:
        if o.get("kind") == "summary":
            msum = o
        elif o.get("kind") == "bad-line":
            raise core.ToolError("map replay: unparsable case line from TLC")
        elif o.get("kind") == "map-mismatch":
            cls = o["group"].split("|")[0]
            _judge_map_mismatch(ctx, cls, o["first"]["m"], o["first"]["case"], o["n"], "Map_%s.cfg" % ctx.tier)
    if msum and rc == 0:
        missing = [k for k in MAP_REQUIRED if not msum.get("exp_seen", {}).get(k)]
        if missing:
            raise core.ToolError("vacuous map enumeration: no expected call for %s" % missing)
        ctx.coverage["map_expected_outcomes"] = msum.get("exp_seen")
        ctx.coverage["map_cases_by_kind"] = msum.get("by_kind")
    map_cases = 0
    if msum and os.path.exists(mtrace):
        map_cases = msum["cases"]
        ctx.add_run("map replay", cases=msum["cases"], accessor_calls=msum["calls"], item_struct_calls=msum["parts"],
                    well_formed=msum["wf"], valid_by_spec=msum["valid"], differences=msum["mismatches"],
                    panics=msum["panics"], distinct_outcome_shapes=msum["distinct_outcome_shapes"], wall_s=round(wall, 1))
        ctx.sample({"direction": "map", "case": msum.get("sample")})

    if not quick:
        _binding_selftest(ctx, b_events, mtrace if msum else None)

    # ---- evidence
    if b_events:
        e = b_events[min(len(b_events) - 1, 3)]
        ctx.sample({"direction": "B", "mutation": e.get("mut"), "file_len": len(e.get("bytes", [])),
                    "open": e["file"].get("open"), "items": len(e["file"].get("items", [])),
                    "data": [d.get("r") for d in e["file"].get("data", [])]})
        muts = {}
        for e in b_events:
            k = str(e.get("mut")).split(":")[0].rstrip("0123456789")
            muts[k] = muts.get(k, 0) + 1
        ctx.coverage["trace_events_by_mutation"] = muts
        ctx.add_run("random driver", events=len(b_events), seed=ctx.seed,
                    distinct_files=(b_summary or {}).get("distinct_files"))
    cov = ctx.coverage
    cov["evaluations"] = total_cases + len(b_events) + map_cases + (usum or {}).get("cases", 0)
    cov["distinct_nontrivial"] = distinct + (b_summary or {}).get("distinct_files", 0) + \
        (msum or {}).get("distinct_outcome_shapes", 0)
    cov["rule"] = ("(A) every state of DatafileMC's graph = one file: all small abstract datafiles of the configuration "
                   "x {v3, v4}, and every single-field corruption (boundary values) of the structurally maximal ones; "
                   "counted distinct = distinct byte images replayed (all are non-trivial: each differs from its base in "
                   "one field or is a different well-formed file). (B) seeded random real-size files x mutations, distinct "
                   "byte images. (M) map sweeps: counted conservatively as the number of distinct accessor outcome shapes.")
    cov["exhaustive"] = True
    cov["exhaustive_note"] = ("TLC enumerated the finite case space of the (A) and (M) configurations completely; "
                              "direction B is a seeded sample")
    ctx.assumptions += [
        "the file is read through datafile::Reader::open (a regular file that does not change while it is read) and raw::Reader::new with in-memory callbacks implementing the documented callback contract",
        "accessors taking an index are called with indices below num_items/num_data/num_item_types or with indices the reader itself handed out (an out-of-range index chosen by the caller is a caller error)",
        "version 4 blocks: the spec defines stored deflate blocks exactly and treats the repository's compressor as an uninterpreted injective function (dictionary recorded by the writer); any other byte string as a compressed block is 'unspec' (any non-panicking answer allowed)",
        "files are below 2 GiB; allocation of the sizes a header declares (below 2 GiB) succeeds (virtual memory, never touched)",
        "out-of-bounds reads that do not panic are not observable here (no sanitizer run)",
        "map layer: Map.tla specifies every accessor and item struct; the claim is exhaustive for the generated profiles (three base maps, every single-choice deviation) and their single-field corruptions with the listed values; tile layers of tilemap version 4 (0.7 skip compression) are not expanded by the reader and are outside the well-formed half",
    ]


# ---------------------------------------------------------------------------------------- replay

def replay(ctx, path):
    bins = core.build_harness(["vh-datafile"])
    scratch = _scratch(ctx)
    try:
        obj = json.load(open(path))
        case = obj.get("replay", obj)
        if case.get("kind") == "buffer":
            rc, out = core.run_harness([bins + "/vh-datafile", "buffer-replay", scratch], stdin=json.dumps(case["case"]) + "\n",
                                       timeout=300)
            for o in _json_lines(out):
                if o.get("kind") == "buffer-finding" and o["group"].startswith("readback-"):
                    ctx.report("wf-not-read-back:buffer:%s" % o["group"].replace("|", ":"),
                               "the content of a Buffer, laid out by the independent writer, is not read back as stored", case)
            ctx.coverage["states"] = max(ctx.coverage["states"], 1)
            ctx.coverage["transitions"] = max(ctx.coverage["transitions"], 1)
            ctx.sample({"replayed": path})
            return
        rc, out = core.run_harness([bins + "/vh-datafile", "replay-one", scratch, path], timeout=300)
        objs = _json_lines(out)
        if rc == 97:
            ctx.report("hang:replay", "a reader call did not return within 20 s (watchdog)", case)
            return
        if rc != 0:
            ctx.report("crash:replay:rc=%s" % rc, "the harness process died (exit %s)" % rc, case)
            return
        ev = [o for o in objs if o.get("kind") == "event"]
        mev = [o for o in objs if o.get("kind") == "map-observed"]
        if ev:
            t = os.path.join(ctx.workdir, "replay.ndjson")
            with open(t, "w") as fh:
                fh.write(json.dumps(ev[0]["event"]) + "\n")
            _validate_chunks(ctx, "DatafileTrace.tla", t, "datafile", max_rounds=1)
        elif mev:
            cls = "wf" if case.get("wf") else ("valid" if case.get("valid") else "other")
            for o in objs:
                if o.get("kind") == "map-mismatch-one":
                    _judge_map_mismatch(ctx, cls, o["m"], case, 1, "replay")
            t = os.path.join(ctx.workdir, "replay-map.ndjson")
            with open(t, "w") as fh:
                fh.write(json.dumps(mev[0]["event"]) + "\n")
            _validate_chunks(ctx, "MapTrace.tla", t, "map", max_rounds=1)
        else:
            _judge_A(ctx, objs + [{"kind": "summary", "cases": 1, "distinct_files": 1}], rc, out, "replay")
        ctx.coverage["states"] = max(ctx.coverage["states"], 1)
        ctx.coverage["transitions"] = max(ctx.coverage["transitions"], 1)
        ctx.sample({"replayed": path})
    finally:
        shutil.rmtree(scratch, ignore_errors=True)
