"""C03 — connection layer (spec/conn): see checklib/conn.py and DESIGN.md §5 C03."""
from checklib import conn

LEVEL = "model_checking"


def run(ctx):
    conn.run_property(ctx, "C03")


def replay(ctx, path):
    conn.replay_file(ctx, "C03", path)
