"""C09 - applying a snapshot delta reproduces the target snapshot (incl. the wire form of
the delta and agreement with the bundled DDNet reference).

TLC checks the delta / wire laws of SnapAlg.tla on every pair of a small universe
(MC_Pair*_laws.cfg), exports every pair (MC_Pair*_exp.cfg) into the harness, which builds
both snapshots with the real builder, creates, writes, reads and applies the delta and runs
the DDNet reference on the same pair; SnapAlgTrace.tla judges every recorded event. Seeded
random pairs of real size (up to 1024 items / 64 KiB) are judged the same way."""
from checklib import core, snapalg

LEVEL = "model_checking"


def run(ctx):
    binp = snapalg.build()
    run_ = snapalg.Run(ctx)
    if ctx.tier == "quick":
        fams_laws = ["PairQuick", "PairZero", "PairOrderQuick", "PairLimitQuick", "ChainRawQuick"]
        fams_a, nb, seeds, par = list(fams_laws), 80, 1, 4
        more_b = [("chainraw", 6)]
    else:
        fams_laws = ["PairMedium", "PairExplicit", "PairThorough", "PairZero", "PairOrderThorough", "PairLimitThorough", "BigPair"]
        # the larger universe ChainRawThorough of MC_SnapChain.tla is not wired in: it was never measured
        # (machine load during the extension round); the thorough tier runs the quick universe and more random chains
        fams_laws.append("ChainRawQuick")
        fams_a = list(fams_laws)
        nb, seeds, par = 400, 4, 8
        more_b = [("chainraw", 40)]
    paths = snapalg.run_all(ctx, run_, binp, fams_laws, fams_a, "pair", nb, seeds=seeds, par=par,
                            law_workers=2 if ctx.tier == "quick" else 3, more_b=more_b)
    if ctx.tier == "thorough" and paths:
        def mut(ev):
            ev["r_ints"]["res"]["crc"] = ev["r_ints"]["res"]["crc"] ^ 1
            return "checksum of the applied result flipped in one bit"
        snapalg.binding_selftest(ctx, paths[0], mut)

        def mut2(ev):
            ev["dw"]["v"] = ev["dw"]["v"][:-1] if ev["dw"]["v"] else [1]
            return "last integer of the written delta dropped"
        snapalg.binding_selftest(ctx, paths[0], mut2)
    ctx.coverage["exhaustive"] = True
    ctx.assumptions += [
        "items of one key have the same length in both snapshots of a pair (Delta::create panics otherwise by contract: 'item sizes can't be mismatched for self-created snapshots'; the game makes the length a function of the type)",
        "items of a type with a pre-agreed size have that size (Delta::write asserts it); size tables include a pre-agreed size of 0 (family PairZero, random tables with type 63 -> 0)",
        "the DDNet reference is only called with what it can express without aborting the process: types <= 0x7fff, pre-agreed types < 64 with non-zero size, items added in the order of the unsigned key; an empty reference delta (0 integers) means 'no delta' (the cleared Delta), as in Manager::add_delta",
        "exhaustive over the small universes of MC_SnapAlg.tla only; real-size pairs are seeded random samples",
    ]
    run_.finish("distinct (A, B, size table) cases with A # B, counted by digest of the case input")


def replay(ctx, path):
    snapalg.replay(ctx, path)
