"""C05 -- packet encoding and decoding are mutually inverse (0.6/DDNet and 0.7).

Spec: spec/wire/Wire.tla, Wire7.tla (bit layouts from doc/packet.md, doc/packet7.md; packet grammar),
MC_Wire.tla (laws on enumerated cases + export), WireTrace.tla (judges what the real code did).
Violation: write -> read is not the identity, any warning on freshly written (canonical) output,
header pack/unpack not inverse, a panic.  Different bytes with intact round trips = drift."""
from checklib import wire

LEVEL = "model_checking"


def run(ctx):
    wire.run_property(ctx, "C05")


def replay(ctx, path):
    wire.replay(ctx, "C05", path)
