"""C08 -- variable-length integers and packed fields round-trip canonically.

Specification: spec/varint (VarInt.tla: Encode / Decode and the laws; PackOps.tla + Packer.tla: the
packer / unpacker state machine; VarIntTrace.tla: judge of recorded behaviour).

(1) TLC checks the laws on the model (integers: 2^18 / 2^22 around zero + boundaries; byte strings:
    all of length <= 2 / all 2^24 of length 3 + the 4/5-byte sweep; packer sessions).
(A) The same TLC runs export every enumerated case with the result the specification prescribes;
    the harness executes each on the real libtw2-packer.  A case whose real result differs is
    written as trace events and judged by VarIntTrace.tla (VIOLATION if the property-level
    judgement rejects it, DRIFT if only the detailed model differs).
(B) A seeded driver records integers, decoder inputs and packer/unpacker sessions with real-size
    values; VarIntTrace.tla validates the whole trace.
"""
import json
import os

from checklib import codec, core

LEVEL = "model_checking"
COMP = "varint"
TRACE_MOD, TRACE_CFG = "VarIntTrace.tla", "VarIntTrace.cfg"


def segment_of(events, idx):
    """The events a rejection at idx needs for a replay: the batch itself, or the session."""
    e = events[idx]
    if e["e"] in ("ints", "decs"):
        return idx, idx + 1
    a = idx
    while a > 0 and not (events[a]["e"] == "pk_new" or (events[a]["e"] == "up_new" and events[a].get("src") == "raw")):
        a -= 1
    b = idx + 1
    while b < len(events) and events[b]["e"] not in ("pk_new", "ints", "decs") and not (
            events[b]["e"] == "up_new" and events[b].get("src") == "raw"):
        b += 1
    return a, b


def key_of(ev, seg):
    k = ev["e"]
    if k == "ints":
        bad = [i for i in ev["items"] if i.get("wres") != "ok" or i.get("rres") != "ok" or i.get("rv") != i.get("x")
               or i.get("rw") or not i.get("canary", True) or i.get("xres", "ok") != "ok" or i.get("sres", "cap") != "cap"
               or i.get("xenc", i.get("enc")) != i.get("enc")]
        x = bad[0]["x"] if bad else ev["items"][0]["x"]
        return "write_int/read_int:x=%s" % x
    if k == "decs":
        return "read_int:%d strings, first %s" % (len(ev["items"]), ev["items"][0]["b"])
    if k == "w":
        return "packer-write:%s:res=%s" % (ev["k"], ev["res"])
    if k == "pk_end":
        return "packer-written:canary=%s" % ev.get("canary")
    if k == "r":
        return "unpacker-read:%s:res=%s" % (ev["o"], ev["res"])
    return "packer:%s" % k


def tlc_configs(tier):
    t = "quick" if tier == "quick" else "thorough"
    return [
        ("MC_Int.tla", "MC_Int_%s.cfg" % t, "VarInt integer laws", False),
        ("MC_Bytes.tla", "MC_Bytes_%s.cfg" % t, "VarInt decoder laws", False),
        ("MC_Packer.tla", "MC_Packer_rt_%s.cfg" % t, "Packer round trip", True),
        ("MC_Packer.tla", "MC_Packer_bands_%s.cfg" % t, "Packer exact fit (magnitude bands)", True),
        ("MC_Packer.tla", "MC_Packer_any_%s.cfg" % t, "Unpacker totality", True),
    ]


def run(ctx):
    bins = core.build_harness([codec.BINPKG])
    vh = os.path.join(bins, "vh-varint")
    sd = codec.spec_copy(ctx, COMP)
    quick = ctx.tier == "quick"
    workers = 2 if quick else 4
    tmo = 600 if quick else 2400

    # ---- (1)+(A): model checking with export, piped into the real code
    def a_job(module, cfg, label, cov):
        mm = os.path.join(ctx.workdir, "mismatch-%s.ndjson" % cfg.replace(".cfg", ""))
        res, summ, out, rc = codec.pipe(ctx, sd, module, cfg, [vh, "replay", mm], label, workers=(workers + 2 if "Bytes" in module else workers),
                                        timeout=tmo, coverage=cov)
        return (module, cfg, label, cov, mm, res, summ, out, rc)

    # ---- (B): seeded driver
    trace = os.path.join(ctx.workdir, "varint-trace.ndjson")
    n_ints, n_decs, n_sess = (4000, 4000, 500) if quick else (60000, 60000, 6000)

    def b_job():
        rc, out = core.run_harness([vh, "drive", str(ctx.seed), str(n_ints), str(n_decs), str(n_sess), trace], timeout=600)
        return rc, out

    jobs = [(lambda m=m, c=c, l=l, v=v: a_job(m, c, l, v)) for (m, c, l, v) in tlc_configs(ctx.tier)]
    results = codec.parallel(jobs + [b_job], max_workers=6)
    brc, bout = results[-1]

    evaluations, nontrivial = 0, 0
    for (module, cfg, label, cov, mm, res, summ, out, rc) in results[:-1]:
        codec.harness_failure(ctx, "C08", label, rc, out)
        codec.check_model_run(ctx, res, label)
        # vacuity: the unpacker-only configuration has no write phase by construction
        expected_zero = {"Write", "StartRead"} if "_any_" in cfg else set()
        zero = [a for a in res.zero_actions if a not in expected_zero]
        if cov and zero:
            ctx.report("model:%s:vacuous" % cfg, "actions never taken in an exhaustive configuration: %s" % zero,
                       {"cfg": cfg, "zero": zero})
        if summ is None:
            if rc == 0:
                raise core.ToolError("no summary from the harness for %s" % label)
            continue
        n = summ["ints"] + summ["decs"] + summ["ops"]
        if n == 0:
            raise core.ToolError("TLC exported no case for %s" % label)
        evaluations += n
        nontrivial += summ.get("nontrivial", 0)
        ctx.add_run("replay on libtw2-packer: " + label, cases_int=summ["ints"], cases_bytes=summ["decs"],
                    sessions=summ["sessions"], calls_in_sessions=summ["ops"], mismatching_cases=summ["mismatch_cases"])
        for s in summ.get("samples", [])[:2]:
            ctx.sample(s, limit=6)
        if summ["mismatch_cases"]:
            # the real code did not reproduce what the detailed model predicts: TLC judges each case
            ok_n, drifts, _ = codec.judge_trace(ctx, sd, TRACE_MOD, TRACE_CFG, mm, segment_of, key_of,
                                                "direction A (%s)" % label)
            for d in drifts:
                ctx.report_drift("%s: %s" % (label, d))
            if not drifts and not ctx.violations:
                ctx.report_drift("%s: %d cases differ from the exported expectation but the trace specification accepts them" % (
                    label, summ["mismatch_cases"]))

    # ---- (B) validate the recorded trace
    codec.harness_failure(ctx, "C08", "driver", brc, bout)
    bs = codec.summary_of(bout)
    if brc == 0 and bs:
        ok_n, drifts, _ = codec.judge_trace(ctx, sd, TRACE_MOD, TRACE_CFG, trace, segment_of, key_of, "direction B", timeout=tmo)
        for d in drifts:
            ctx.report_drift("recorded trace: " + d)
        evaluations += bs["ints"] + bs["decs"] + bs["sessions"]
        ctx.add_run("recorded trace validated by VarIntTrace.tla", events=bs["events"], ints=bs["ints"],
                    decoder_inputs=bs["decs"], sessions=bs["sessions"], events_accepted=ok_n)
        evs = core.read_ndjson(trace)
        sess = [e for e in evs if e["e"] not in ("ints", "decs")][:12]
        ctx.sample({"recorded_session_events": sess}, limit=7)

    # ---- binding self-test (thorough): a corrupted trace must be rejected
    if not quick and brc == 0:
        binding_selftest(ctx, sd, trace)

    ctx.coverage["evaluations"] = evaluations
    ctx.coverage["distinct_nontrivial"] = nontrivial
    ctx.coverage["rule"] = ("cases enumerated by TLC (sets, hence distinct) and executed on libtw2-packer: integers whose "
                            "encoding has >= 2 bytes, byte strings of length >= 2, packer/unpacker sessions with >= 2 calls")
    ctx.coverage["exhaustive"] = True
    ctx.assumptions += [
        "exhaustive within the stated domains only: integers -2^17..2^17 (thorough -2^21..2^21) plus +-2^k(+-1), MIN, MAX; "
        "byte strings of length <= 2 (thorough: all 2^24 of length 3) plus the 4/5-byte sweep; 'all 2^32 integers' is sampled "
        "(seeded, uniform bit width) in direction B, not enumerated",
        "write_string is only called with NUL-free strings and new_from_demo with a length that is a multiple of four "
        "(both assert: calls the API does not permit)",
        "'never writes past the buffer' is observed through capacity errors and canary bytes around the supplied buffer",
        "value of an integer whose padding bits are not zero is unspecified by doc/int.md: only compared as detail (DRIFT)",
    ]


def binding_selftest(ctx, sd, trace):
    """Corrupt one logged field / drop one event of the recorded trace: TLC must reject both."""
    evs = core.read_ndjson(trace)
    sess = [i for i, e in enumerate(evs) if e["e"] == "pk_new"]
    if len(sess) < 3:
        return
    a, b = sess[0], sess[2]
    small = evs[a:b]
    r_ok = [i for i, e in enumerate(small) if e["e"] == "r" and e["o"] == "int" and e["res"] == "ok"]
    w_ok = [i for i, e in enumerate(small) if e["e"] == "w"]
    tests = []
    if r_ok:
        c = json.loads(json.dumps(small))
        c[r_ok[0]]["v"] += 1
        tests.append(("corrupted value", c))
    if w_ok:
        c = json.loads(json.dumps(small))
        del c[w_ok[0]]
        tests.append(("dropped write", c))
    good = 0
    for name, c in tests:
        p = os.path.join(ctx.workdir, "binding-%s.ndjson" % name.replace(" ", "-"))
        codec.write_events(p, c)
        r = codec.run_trace(ctx, sd, TRACE_MOD, TRACE_CFG, p)
        if r["accepted"]:
            raise core.ToolError("binding self-test: the trace specification accepted a trace with a %s" % name)
        good += 1
    ctx.add_run("binding self-test", corrupted_traces_rejected=good)


def replay(ctx, path):
    bins = core.build_harness([codec.BINPKG])
    vh = os.path.join(bins, "vh-varint")
    sd = codec.spec_copy(ctx, COMP)
    obj = json.load(open(path))
    events = obj["replay"].get("events") if isinstance(obj.get("replay"), dict) else None
    if not events:
        raise core.ToolError("replay file has no events (model-level finding?): %s" % path)
    src = os.path.join(ctx.workdir, "replay-in.ndjson")
    dst = os.path.join(ctx.workdir, "replay-out.ndjson")
    codec.write_events(src, events)
    rc, out = core.run_harness([vh, "rerun", src, dst])
    if codec.harness_failure(ctx, "C08", "replay", rc, out, {"events": events}):
        return
    ok_n, drifts, _ = codec.judge_trace(ctx, sd, TRACE_MOD, TRACE_CFG, dst, segment_of, key_of, "replay")
    for d in drifts:
        ctx.report_drift(d)
    ctx.coverage["evaluations"] = len(events)
    ctx.sample({"replayed_events": core.read_ndjson(dst)[:10]})
    print("replay: %d events re-executed, %s" % (len(events), "still rejected" if ctx.violations else "accepted now"))
