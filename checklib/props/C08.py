"""C08 -- variable-length integers and packed fields round-trip canonically.

Specification: spec/varint (VarInt.tla: Encode / Decode and the laws; PackOps.tla + Packer.tla: the
packer / unpacker state machine; VarIntTrace.tla: judge of recorded behaviour).

(1) TLC checks the laws on the model (integers: 2^18 / 2^22 around zero + boundaries; byte strings:
    all of length <= 2 / all 2^24 of length 3 + the 4/5-byte sweep; packer sessions).
(A) The same TLC runs export every enumerated case with the result the specification prescribes;
    the harness executes each on the real libtw2-packer.  A case whose real result differs is
    written as trace events and judged by VarIntTrace.tla (VIOLATION if the property-level
    judgement rejects it, DRIFT if only the detailed model differs).
(B) A seeded driver records integers, decoder inputs and packer/unpacker sessions with real-size
    values; VarIntTrace.tla validates the whole trace.
"""
import json
import os

from checklib import codec, core

LEVEL = "model_checking"
COMP = "varint"
TRACE_MOD, TRACE_CFG = "VarIntTrace.tla", "VarIntTrace.cfg"


SINGLES = ("ints", "decs", "helpers")


def segment_of(events, idx):
    """The events a rejection at idx needs for a replay: the batch itself, or the session."""
    e = events[idx]
    if e["e"] in SINGLES:
        return idx, idx + 1
    a = idx
    while a > 0 and not (events[a]["e"] in ("pk_new", "iu_new") or (events[a]["e"] == "up_new" and events[a].get("src") == "raw")):
        a -= 1
    b = idx + 1
    while b < len(events) and events[b]["e"] not in ("pk_new", "iu_new") + SINGLES and not (
            events[b]["e"] == "up_new" and events[b].get("src") == "raw"):
        b += 1
    return a, b


def key_of(ev, seg):
    k = ev["e"]
    if k == "ints":
        bad = [i for i in ev["items"] if i.get("wres") != "ok" or i.get("rres") != "ok" or i.get("rv") != i.get("x")
               or i.get("rw") or not i.get("canary", True) or i.get("xres", "ok") != "ok" or i.get("sres", "cap") != "cap"
               or i.get("xenc", i.get("enc")) != i.get("enc")]
        x = bad[0]["x"] if bad else ev["items"][0]["x"]
        return "write_int/read_int:x=%s" % x
    if k == "decs":
        return "read_int:%d strings, first %s" % (len(ev["items"]), ev["items"][0]["b"])
    if k == "w":
        return "packer-write:%s:res=%s" % (ev["k"], ev["res"])
    if k == "pk_end":
        return "packer-written:canary=%s" % ev.get("canary")
    if k == "r":
        return "unpacker-read:%s:res=%s" % (ev["o"], ev["res"])
    if k == "up_new":
        return "unpacker-new:demo=%s:res=%s" % (ev.get("demo"), ev.get("res"))
    if k == "helpers":
        bad = [i for i in ev["items"] if i.get("res") in ("panic", "canary")]
        return "helper:%s:res=%s" % ((bad[0]["f"], bad[0]["res"]) if bad else (ev["items"][0]["f"], "?"))
    if k == "ir":
        return "intunpacker:%s:res=%s" % (ev["o"], ev["res"])
    return "packer:%s" % k


def tlc_configs(tier):
    t = "quick" if tier == "quick" else "thorough"
    return [
        ("MC_Int.tla", "MC_Int_%s.cfg" % t, "VarInt integer laws", False),
        ("MC_Bytes.tla", "MC_Bytes_%s.cfg" % t, "VarInt decoder laws", False),
        ("MC_Packer.tla", "MC_Packer_rt_%s.cfg" % t, "Packer round trip", True),
        ("MC_Packer.tla", "MC_Packer_bands_%s.cfg" % t, "Packer exact fit (magnitude bands)", True),
        ("MC_Packer.tla", "MC_Packer_any_%s.cfg" % t, "Unpacker totality", True),
        # extension round
        ("MC_Packer.tla", "MC_Packer_uuid_%s.cfg" % t, "Packer write_uuid / read_uuid", True),
        ("MC_Packer.tla", "MC_Packer_poison_%s.cfg" % t, "Unpacker reads of every kind after an error", True),
        ("MC_Packer.tla", "MC_Packer_demo_%s.cfg" % t, "Unpacker demo padding rule (finish at every position)", True),
        ("MC_Helpers.tla", "MC_Helpers_%s.cfg" % t, "helper functions and IntUnpacker", False),
    ]


def run(ctx):
    bins = core.build_harness([codec.BINPKG])
    vh = os.path.join(bins, "vh-varint")
    sd = codec.spec_copy(ctx, COMP)
    quick = ctx.tier == "quick"
    workers = 2 if quick else 4
    tmo = 600 if quick else 2400

    # ---- (1)+(A): model checking with export, piped into the real code
    def a_job(module, cfg, label, cov):
        mm = os.path.join(ctx.workdir, "mismatch-%s.ndjson" % cfg.replace(".cfg", ""))
        res, summ, out, rc = codec.pipe(ctx, sd, module, cfg, [vh, "replay", mm], label, workers=(workers + 2 if "Bytes" in module else workers),
                                        timeout=tmo, coverage=cov)
        return (module, cfg, label, cov, mm, res, summ, out, rc)

    # ---- (B): seeded driver
    trace = os.path.join(ctx.workdir, "varint-trace.ndjson")
    n_ints, n_decs, n_sess = (4000, 4000, 500) if quick else (60000, 60000, 6000)

    def b_job():
        rc, out = core.run_harness([vh, "drive", str(ctx.seed), str(n_ints), str(n_decs), str(n_sess), trace], timeout=600)
        return rc, out

    # ---- all 2^32 integers (thorough) / every 64th of them + everything below 2^21 (quick) on the real
    # write_int / read_int, against the class table IntClasses.tla prints
    stride = 64 if quick else 1
    sweep_args = [str(stride), str(ctx.seed % stride), str(0 if stride == 1 else 1 << 21), str(8 if quick else 16)]

    def sweep_job():
        mm = os.path.join(ctx.workdir, "mismatch-sweep.ndjson")
        res, summ, out, rc = codec.pipe(ctx, sd, "MC_IntClasses.tla", "MC_IntClasses.cfg", [vh, "sweep"] + sweep_args + [mm],
                                        "VarInt classes, sweep of the integers", workers=2, timeout=tmo)
        return ("MC_IntClasses.tla", "MC_IntClasses.cfg", "VarInt classes, sweep of the integers", False, mm, res, summ, out, rc)

    jobs = [(lambda m=m, c=c, l=l, v=v: a_job(m, c, l, v)) for (m, c, l, v) in tlc_configs(ctx.tier)]
    results = codec.parallel(jobs + [sweep_job, b_job], max_workers=8)
    brc, bout = results[-1]

    evaluations, nontrivial = 0, 0
    for (module, cfg, label, cov, mm, res, summ, out, rc) in results[:-1]:
        codec.harness_failure(ctx, "C08", label, rc, out)
        codec.check_model_run(ctx, res, label)
        # vacuity: the unpacker-only configuration has no write phase by construction
        expected_zero = {"Write", "StartRead"} if ("_any_" in cfg or "_poison_" in cfg or "_demo_" in cfg) else set()
        zero = [a for a in res.zero_actions if a not in expected_zero]
        if cov and zero:
            ctx.report("model:%s:vacuous" % cfg, "actions never taken in an exhaustive configuration: %s" % zero,
                       {"cfg": cfg, "zero": zero})
        if summ is None:
            if rc == 0:
                raise core.ToolError("no summary from the harness for %s" % label)
            continue
        n = summ["ints"] + summ["decs"] + summ["ops"]
        if n == 0:
            raise core.ToolError("TLC exported no case for %s" % label)
        evaluations += n
        nontrivial += summ.get("nontrivial", 0)
        ctx.add_run("replay on libtw2-packer: " + label, cases_int=summ["ints"], cases_bytes=summ["decs"],
                    sessions=summ["sessions"], calls_in_sessions=summ["ops"], mismatching_cases=summ["mismatch_cases"])
        if "per_class" in summ:
            # completeness of the sweep: with stride 1 every class must have been visited exactly as often as it is large
            swept = sum(c["swept"] for c in summ["per_class"])
            ctx.coverage["integers_swept_on_real_code"] = swept
            ctx.coverage["sweep"] = {"stride": summ["stride"], "offset": summ["offset"], "dense_below": summ["dense"],
                                     "threads": summ["threads"], "wall_s": round(summ["wall_s"], 1), "per_class": summ["per_class"]}
            if summ["stride"] == 1:
                short = [c for c in summ["per_class"] if c["swept"] < c["mhi"] - c["mlo"] + 1]
                if short or swept < 2 ** 32:
                    raise core.ToolError("the sweep of all integers is incomplete: %s" % short)
        for s in summ.get("samples", [])[:2]:
            ctx.sample(s, limit=6)
        if summ["mismatch_cases"]:
            # the real code did not reproduce what the detailed model predicts: TLC judges each case
            ok_n, drifts, _ = codec.judge_trace(ctx, sd, TRACE_MOD, TRACE_CFG, mm, segment_of, key_of,
                                                "direction A (%s)" % label)
            for d in drifts:
                ctx.report_drift("%s: %s" % (label, d))
            if not drifts and not ctx.violations:
                ctx.report_drift("%s: %d cases differ from the exported expectation but the trace specification accepts them" % (
                    label, summ["mismatch_cases"]))

    # ---- (B) validate the recorded trace
    codec.harness_failure(ctx, "C08", "driver", brc, bout)
    bs = codec.summary_of(bout)
    if brc == 0 and bs:
        ok_n, drifts, _ = codec.judge_trace(ctx, sd, TRACE_MOD, TRACE_CFG, trace, segment_of, key_of, "direction B", timeout=tmo)
        for d in drifts:
            ctx.report_drift("recorded trace: " + d)
        evaluations += bs["ints"] + bs["decs"] + bs["sessions"] + bs.get("helpers", 0) + bs.get("iu_sessions", 0)
        ctx.add_run("recorded trace validated by VarIntTrace.tla", events=bs["events"], ints=bs["ints"],
                    decoder_inputs=bs["decs"], sessions=bs["sessions"], helper_calls=bs.get("helpers", 0),
                    intunpacker_sessions=bs.get("iu_sessions", 0), events_accepted=ok_n)
        evs = core.read_ndjson(trace)
        sess = [e for e in evs if e["e"] not in SINGLES][:12]
        ctx.sample({"recorded_session_events": sess}, limit=7)

    # ---- binding self-test (thorough): a corrupted trace must be rejected
    if not quick and brc == 0:
        binding_selftest(ctx, sd, trace)

    ctx.coverage["evaluations"] = evaluations
    ctx.coverage["distinct_nontrivial"] = nontrivial
    ctx.coverage["rule"] = ("cases enumerated by TLC (sets, hence distinct) and executed on libtw2-packer: integers whose "
                            "encoding has >= 2 bytes, byte strings of length >= 2, packer/unpacker sessions with >= 2 calls")
    ctx.coverage["exhaustive"] = True
    ctx.assumptions += [
        "exhaustive within the stated domains only: integers -2^17..2^17 (thorough -2^21..2^21) plus +-2^k(+-1), MIN, MAX; "
        "byte strings of length <= 2 (thorough: all 2^24 of length 3) plus the 4/5-byte sweep; 'all 2^32 integers' is sampled "
        "(seeded, uniform bit width) in direction B, not enumerated",
        "write_string is only called with NUL-free strings and new_from_demo with a length that is a multiple of four "
        "(both assert: calls the API does not permit)",
        "'never writes past the buffer' is observed through capacity errors and canary bytes around the supplied buffer",
        "value of an integer whose padding bits are not zero is unspecified by doc/int.md: only compared as detail (DRIFT)",
    ]


def binding_selftest(ctx, sd, trace):
    """Corrupt one logged field / drop one event of the recorded trace: TLC must reject both."""
    evs = core.read_ndjson(trace)
    sess = [i for i, e in enumerate(evs) if e["e"] == "pk_new"]
    if len(sess) < 3:
        return
    a, b = sess[0], sess[2]
    small = evs[a:b]
    r_ok = [i for i, e in enumerate(small) if e["e"] == "r" and e["o"] == "int" and e["res"] == "ok"]
    w_ok = [i for i, e in enumerate(small) if e["e"] == "w"]
    tests = []
    if r_ok:
        c = json.loads(json.dumps(small))
        c[r_ok[0]]["v"] += 1
        tests.append(("corrupted value", c))
    if w_ok:
        c = json.loads(json.dumps(small))
        del c[w_ok[0]]
        tests.append(("dropped write", c))
    good = 0
    for name, c in tests:
        p = os.path.join(ctx.workdir, "binding-%s.ndjson" % name.replace(" ", "-"))
        codec.write_events(p, c)
        r = codec.run_trace(ctx, sd, TRACE_MOD, TRACE_CFG, p)
        if r["accepted"]:
            raise core.ToolError("binding self-test: the trace specification accepted a trace with a %s" % name)
        good += 1
    ctx.add_run("binding self-test", corrupted_traces_rejected=good)


def replay(ctx, path):
    bins = core.build_harness([codec.BINPKG])
    vh = os.path.join(bins, "vh-varint")
    sd = codec.spec_copy(ctx, COMP)
    obj = json.load(open(path))
    events = obj["replay"].get("events") if isinstance(obj.get("replay"), dict) else None
    if not events:
        raise core.ToolError("replay file has no events (model-level finding?): %s" % path)
    src = os.path.join(ctx.workdir, "replay-in.ndjson")
    dst = os.path.join(ctx.workdir, "replay-out.ndjson")
    codec.write_events(src, events)
    rc, out = core.run_harness([vh, "rerun", src, dst])
    if codec.harness_failure(ctx, "C08", "replay", rc, out, {"events": events}):
        return
    ok_n, drifts, _ = codec.judge_trace(ctx, sd, TRACE_MOD, TRACE_CFG, dst, segment_of, key_of, "replay")
    for d in drifts:
        ctx.report_drift(d)
    ctx.coverage["evaluations"] = len(events)
    ctx.sample({"replayed_events": core.read_ndjson(dst)[:10]})
    print("replay: %d events re-executed, %s" % (len(events), "still rejected" if ctx.violations else "accepted now"))
