"""C18 — server-info parsing is total; merging parts is order-free and idempotent.

Deciding method: TLC on spec/srvinfo/*.tla.
  SrvInfo.tla / MC_SrvInfo.tla: all sequences of received parts (repeats allowed) of every instance
    of the model, merged in every order and bracketing.  Repaired model (MaskUpdated = TRUE):
    MaskExact, DuplicateFree, CompleteExact, LastStepLegal, Commutes, Idempotent.  Pinned model
    (MaskUpdated = FALSE, the code as it is): OnlyKnownBug — every violation of the property is
    preceded by the named action MergeRepeated_KnownBug (finding F1).
  SrvInfoWire.tla / MC_SrvInfoWire.tla: byte-level grammar of the thirteen response kinds (headers,
    address records, counts, tokens, decimal and variable-length numbers, UTF-8 strings cut to their
    capacity, count sanity check, client lists); Parse is evaluated on exhaustive families (every
    header byte, every prefix, counts x records, offset x records, packet number x records, every
    numeric field at its boundaries / in every decimal or varint form, every string around its
    capacity, client orders) - laws Total, MaskFits, SaneWhenSome, ListLaw, Sorted.
  SrvInfoParse.tla (token level; thorough tier and the D6 self-test): MaskFits fails for the pinned
    off-by-one model.
  (A) every transition of the merge graph and every parse case is exported and replayed on the
      real parse_response / Info*Response::parse / PartialServerInfo::merge / get_info.
  (B) real-size infos (64 clients, up to 64 packets; permutations, duplications, partials merged into
      partials) and arbitrary datagrams are recorded and validated by SrvInfoTrace.tla.
Keys: "merge-repeated-part:<shape>" for rejections explained by MergeRepeated_KnownBug (F1);
"panic:..." / "merge-deviates:..." / "unexplained:..." for everything else."""
import concurrent.futures as cf
import json
import os
import re
import threading
import time

from checklib import core

LEVEL = "model_checking"
SPECDIR = os.path.join(core.SPEC, "srvinfo")
_lock = threading.Lock()
_n = [0]


def _jenv(ctx, extra=None):
    """own java.io.tmpdir: TLC unpacks its standard modules there, and /tmp is shared with other jobs"""
    d = os.path.join(ctx.workdir, "jtmp")
    os.makedirs(d, exist_ok=True)
    e = {"JAVA_TOOL_OPTIONS": "-Djava.io.tmpdir=" + d}
    if extra:
        e.update(extra)
    return e


def _metadir(ctx, tag):
    with _lock:
        _n[0] += 1
        return os.path.join(ctx.workdir, "tlc-%s-%d" % (tag, _n[0]))


def _pipe(ctx, module, cfg, cmd, timeout):
    with _lock:
        _n[0] += 1
        k = _n[0]
    time.sleep(0.07 * k)
    tres, rc, out = core.tlc_pipe(module, cfg, cmd, cwd=SPECDIR, timeout=timeout, env=_jenv(ctx))
    if rc == 97:
        m = re.search(r"^HANG (.*)$", out, re.M)
        return tres, None, (m.group(1) if m else "{}")
    summ = None
    for line in out.splitlines():
        if line.startswith("{") and '"summary"' in line:
            summ = json.loads(line)
    if rc != 0 or summ is None:
        raise core.ToolError("%s failed (rc=%s) for %s" % (cmd[0], rc, cfg))
    tail = "\n".join(summ.get("tlc_tail", []))
    tres.out = tail
    core.parse_tlc(tail, tres)
    return tres, summ, None


def _validate(ctx, cfg, trace, timeout=900):
    res = core.run_tlc("SrvInfoTrace.tla", cfg, cwd=SPECDIR, workers=1, timeout=timeout,
                       env=_jenv(ctx, {"TRACE": os.path.abspath(trace)}), heap="3g", stack="1g", deque=True,
                       metadir=_metadir(ctx, "trace"))
    lines = [l for l in res.out.splitlines() if l.startswith("<<")]
    out = {"reject": [], "known": [], "detail": [], "trace_rejected": None}
    for l in lines:
        m = re.match(r'<<"(PROP-REJECT|KNOWN|DETAIL)", (\d+), "([^"]*)">>', l)
        if m:
            out[{"PROP-REJECT": "reject", "KNOWN": "known", "DETAIL": "detail"}[m.group(1)]].append(
                (int(m.group(2)), m.group(3)))
        elif l.startswith('<<"TRACE REJECTED"'):
            out["trace_rejected"] = l
    if (res.error or not res.ok) and out["trace_rejected"] is None:
        raise core.ToolError("TLC failed on %s with %s: %s" % (trace, cfg, (res.error or res.out[-400:])[:500]))
    return res, out


def _run_history(trace, event_no):
    """the run (instance + acts) that contains event `event_no` (1-based line) of a merge trace"""
    inst, hist = None, []
    with open(trace) as fh:
        for no, line in enumerate(fh, 1):
            o = json.loads(line)
            if o["t"] == "I":
                if no > event_no:
                    break
                inst, hist = o["inst"], []
            elif o["t"] == "P":
                hist.append({"a": "parse", "p": o["p"]})
            elif o["t"] == "M":
                hist.append({"a": "merge", "i": o["i"], "j": o["j"]})
            elif o["t"] == "K":
                hist.append({"a": "take", "i": o["i"]})
            if no == event_no:
                break
    return {"kind": "merge", "from": {"inst": inst}, "history": hist}


def _report_known(ctx, shape, count, where, rep):
    ctx.report("merge-repeated-part:" + shape,
               "%s: %d step(s) where the real merge does what the named action MergeRepeated_KnownBug of "
               "SrvInfo.tla says (stale received mask: %s) and the property-level spec rejects the result "
               "(duplicated or lost clients / wrong completeness)" % (where, count, shape), rep)


def _merge_verdict(ctx, exe, tier, pinned, name=""):
    """pinned = (tres, summ, hang) of the export of the pinned model; name = "", "foreign_" or "rep_" """
    tres, summ, hang = pinned
    label = "merge graph export, pinned model (Exp_%spinned_%s)" % (name, tier)
    if hang is not None:
        ctx.report("hang:merge", "a merge call did not return", {"case": hang})
        return
    ctx.add_states(tres, label)
    if not tres.ok:
        ctx.report("spec:merge-pinned", "MC_SrvInfo (pinned model) violates %s" % tres.violated, {"tlc": tres.out[-2000:]})
    if summ["edges"] == 0:
        raise core.ToolError("merge export produced no transition")
    ctx.coverage["evaluations"] += summ["edges"]
    ctx.coverage["distinct_nontrivial"] += summ["nontrivial"]
    for s in summ["samples"]:
        ctx.sample(s)
    ctx.add_run(label + " replay", edges=summ["edges"], merges=summ["merges"], takes=summ.get("takes"),
                parses=summ.get("parses"), judged_by_property=summ.get("judged"), error_results=summ.get("error_results"),
                instances=summ.get("instances"), spec_states=summ["states"],
                orphans=summ["orphans"], strict_compared=summ["strict_compared"], strict_diff=summ["strict_diff"],
                known={k["key"]: k["count"] for k in summ["known"]},
                fixedlike={k["key"]: k["count"] for k in summ["fixedlike"]},
                other={k["key"]: k["count"] for k in summ["other"]})
    if not summ["other"] and not summ["fixedlike"] and summ["orphans"] == 0:
        # the code is the pinned model, step for step
        shapes = [k for k in summ["known"]]
        for k in shapes[:(4 if not name else 1)]:
            _report_known(ctx, k["key"], k["count"], "merge graph", k["first"]["replay"])
        if len(shapes) > 4:
            ctx.note("further known-bug shapes in the merge graph %s: %s" % (name, ", ".join(
                "%s x%d" % (k["key"], k["count"]) for k in shapes[4:])))
        return
    # the code is not the pinned model: is it the repaired one?
    ftres, fsumm, fhang = _pipe(ctx, "MC_SrvInfo.tla", "Exp_%sfixed_%s.cfg" % (name, tier), [exe, "merge"], 1500)
    flabel = "merge graph export, repaired model (Exp_%sfixed_%s)" % (name, tier)
    if fhang is not None:
        ctx.report("hang:merge", "a merge call did not return", {"case": fhang})
        return
    ctx.add_states(ftres, flabel)
    if not ftres.ok:
        ctx.report("spec:merge-fixed", "MC_SrvInfo (repaired model) violates %s" % ftres.violated, {"tlc": ftres.out[-2000:]})
    ctx.coverage["evaluations"] += fsumm["edges"]
    ctx.add_run(flabel + " replay", edges=fsumm["edges"], merges=fsumm["merges"], spec_states=fsumm["states"],
                orphans=fsumm["orphans"], strict_diff=fsumm["strict_diff"],
                known={k["key"]: k["count"] for k in fsumm["known"]},
                fixedlike={k["key"]: k["count"] for k in fsumm["fixedlike"]},
                other={k["key"]: k["count"] for k in fsumm["other"]})
    if (not fsumm["other"] and not fsumm["known"] and fsumm["orphans"] == 0 and fsumm["strict_diff"] == 0
            and not fsumm["fixedlike"]):
        ctx.note("the code matches the repaired model (MaskUpdated = TRUE) on every transition: finding F1 is not present")
        for k in fsumm["fixedlike"]:
            ctx.report_drift("merge: internal state differs from the repaired detailed model (%s x%d), observable results agree" % (
                k["key"], k["count"]))
        return
    # neither model: violations are the steps the property-level spec rejects
    # judge against the model the code follows further (fewer transitions left unexplored)
    def _score(x):
        return (x["orphans"] + sum(k["count"] for k in x["other"]), x["strict_diff"])
    best = summ if _score(summ) <= _score(fsumm) else fsumm
    for k in best["other"][:6]:
        ctx.report(k["key"], "merge: the real result is neither what SrvInfo.tla (either model) nor what the "
                   "property-level spec allows (%d transition(s))" % k["count"], k["first"]["replay"])
    for k in best["known"][:2]:
        _report_known(ctx, k["key"], k["count"], "merge graph", k["first"]["replay"])
    for k in best["fixedlike"][:3]:
        ctx.report_drift("merge: differs from the detailed model but the property-level spec accepts (%s x%d)" % (k["key"], k["count"]))
    if not best["other"] and not best["known"]:
        ctx.report_drift("merge: the code follows neither detailed model exactly (orphans %d, strict differences %d) but no "
                         "transition is rejected by the property-level spec" % (best["orphans"], best["strict_diff"]))


def _parse_verdict(ctx, tier, parsed):
    tres, summ, hang = parsed
    label = "parse cases export (Exp_parse_%s)" % tier
    if hang is not None:
        ctx.report("hang:parse", "a parse call did not return", {"kind": "parse", "case": json.loads(hang)})
        return
    ctx.add_states(tres, label)
    if not tres.ok:
        ctx.report("spec:parse", "SrvInfoParse violates %s" % tres.violated, {"tlc": tres.out[-2000:]})
    if summ["cases"] == 0:
        raise core.ToolError("parse export produced no case")
    ctx.coverage["evaluations"] += summ["cases"]
    ctx.coverage["distinct_nontrivial"] += summ["nontrivial"]
    for s in summ["samples"]:
        ctx.sample(s)
    ctx.add_run(label + " replay", cases=summ["cases"], info_cases=summ["info_cases"], resp_cases=summ["resp_cases"],
                mask_compared=summ["mask_compared"], panics={k["key"]: k["count"] for k in summ["panics"]},
                drift={k["key"]: k["count"] for k in summ["drift"]})
    for k in summ["panics"][:6]:
        ctx.report(k["key"], "parsing a datagram panicked (%s; %d case(s)); C18: parsing returns a value or nothing" % (
            k["first"].get("why", "")[:120], k["count"]), k["first"]["replay"])
    for k in summ["drift"][:5]:
        ctx.report_drift("parse verdict differs from SrvInfoParse.tla (%s x%d): want %s got %s" % (
            k["key"], k["count"], json.dumps(k["first"]["want"])[:80], json.dumps(k["first"]["got"])[:80]))


def _wire_verdict(ctx, tier, wired):
    tres, summ, hang = wired
    label = "byte-level parse cases export (Exp_wire_%s)" % tier
    if hang is not None:
        ctx.report("hang:wire", "a parse call did not return", {"kind": "wire", "case": json.loads(hang)})
        return
    ctx.add_states(tres, label)
    if not tres.ok:
        ctx.report("spec:wire", "SrvInfoWire violates %s" % tres.violated, {"tlc": tres.out[-2000:]})
    if summ["cases"] == 0:
        raise core.ToolError("wire export produced no case")
    ctx.coverage["evaluations"] += summ["cases"]
    ctx.coverage["distinct_nontrivial"] += summ["nontrivial"]
    for s in summ["samples"]:
        ctx.sample(s)
    ctx.add_run(label + " replay", cases=summ["cases"], classified=summ["nontrivial"], whole_value_compared=summ["full_compared"],
                families=summ["families"], panics={k["key"]: k["count"] for k in summ["panics"]},
                drift={k["key"]: k["count"] for k in summ["drift"]})
    for k in summ["panics"][:6]:
        ctx.report(k["key"], "parsing a datagram panicked (%s; %d case(s)); C18: parsing returns a value or nothing" % (
            k["first"].get("why", "")[:120], k["count"]), k["first"]["replay"])
    for k in summ["drift"][:6]:
        ctx.report_drift("parsed value differs from SrvInfoWire.tla (%s x%d): datagram %s" % (
            k["key"], k["count"], k["first"]["hex"][:120]))
    if len(summ["drift"]) > 6:
        ctx.report_drift("parsed value differs from SrvInfoWire.tla in %d further families: %s" % (
            len(summ["drift"]) - 6, ", ".join(k["key"] for k in summ["drift"][6:16])))


def _trace_verdict(ctx, files):
    for f in files:
        label = "trace " + os.path.basename(f["path"])
        res, out = _validate(ctx, "Trace_pinned.cfg", f["path"])
        used = "pinned"
        if out["detail"]:
            res2, out2 = _validate(ctx, "Trace_fixed.cfg", f["path"])
            if len(out2["detail"]) + len(out2["reject"]) < len(out["detail"]) + len(out["reject"]):
                res, out, used = res2, out2, "repaired"
        ctx.coverage["traces_validated_against_impl"] += f["runs"]
        ctx.add_run(label, model=used, events=f["events"], runs=f["runs"], rejected=len(out["reject"]),
                    known_steps=len(out["known"]), detail_only=len(out["detail"]), wall_s=round(res.wall_s, 1))
        if out["trace_rejected"]:
            ctx.report("trace-not-consumed:" + label, out["trace_rejected"][:300], {"trace": f["path"]})
        seen = set()
        for no, key in out["reject"]:
            if key in seen or len(seen) >= 5:
                continue
            seen.add(key)
            rep = _run_history(f["path"], no) if f["kind"] == "merge" else _datagram(f["path"], no)
            ctx.report(key, "%s event %d: the property-level spec rejects what the code did (%s)" % (label, no, key), rep)
        shapes = {}
        for no, key in out["known"]:
            shapes.setdefault(key, []).append(no)
        for key in sorted(shapes)[:3]:
            _report_known(ctx, key, len(shapes[key]), label, _run_history(f["path"], shapes[key][0]))
        if out["detail"] and used == "pinned":
            ctx.report_drift("%s: %d step(s) match neither detailed model but are accepted by the property-level spec; first: %s" % (
                label, len(out["detail"]), out["detail"][0]))


def _datagram(trace, event_no):
    with open(trace) as fh:
        for no, line in enumerate(fh, 1):
            if no == event_no:
                o = json.loads(line)
                return {"hex": o.get("hex", ""), "hk": o.get("hk")}
    return {}


def _expect_violation(ctx, res, inv, what):
    ctx.add_run("self-test: " + what, violated=res.violated, distinct=res.distinct)
    if res.violated != inv:
        raise core.ToolError("spec self-test failed (%s): expected %s to be violated, got %s" % (what, inv, res))


def run(ctx):
    quick = ctx.tier == "quick"
    tier = ctx.tier
    bins = core.build_harness(["vh-srvinfo"])
    exe = os.path.join(bins, "vh-srvinfo")
    wd = ctx.workdir
    ctx.assumptions += [
        "well-formed server: its parts have disjoint client ranges, the same token and version, headers announcing the "
        "number of clients there are, and non-empty 6ex \"more\" packets (servers only send one when clients are left over)",
        "the property speaks about the parts of one info: steps that involve a part of another request (other token / "
        "version / server), a malformed server (overlapping or out-of-range slots, repeated packet numbers, two main "
        "packets, empty 'more' packets) or an emptied partial are compared with the detailed model only (DRIFT)",
        "the received mask and the client bag of an incomplete partial are read through the derived Debug image "
        "(strict projection); if that image changes only the observable results are compared",
    ]
    ctx.coverage["rule"] = ("merge / take_info transitions whose expected observation lists >= 2 clients + datagrams of the "
                            "byte-level families that the grammar classifies as a response kind, each executed on the real code")
    with cf.ThreadPoolExecutor(max_workers=12) as ex:
        f_self1 = ex.submit(core.run_tlc, "MC_SrvInfo.tla", "MC_pinned_selftest.cfg", cwd=SPECDIR, workers=1,
                            timeout=900, metadir=_metadir(ctx, "st1"), env=_jenv(ctx))
        f_self2 = ex.submit(core.run_tlc, "SrvInfoParse.tla", "Parse_pinned.cfg", cwd=SPECDIR, workers=1,
                            timeout=900, metadir=_metadir(ctx, "st2"), env=_jenv(ctx))
        f_mc = []
        mcs = (("MC_fixed_quick.cfg", 2),) if quick else (
            ("MC_fixed_thorough.cfg", 4), ("MC_pinned_thorough.cfg", 4), ("MC_rep_fixed_thorough.cfg", 2))
        for cfg, nw in mcs:
            f_mc.append((cfg, ex.submit(core.run_tlc, "MC_SrvInfo.tla", cfg, cwd=SPECDIR, workers=nw, timeout=2400,
                                        coverage=True, metadir=_metadir(ctx, "mc"), env=_jenv(ctx))))
        f_merge = [(name, ex.submit(_pipe, ctx, "MC_SrvInfo.tla", "Exp_%spinned_%s.cfg" % (name, tier), [exe, "merge"], 2400))
                   for name in ("", "foreign_", "rep_")]
        f_wire = ex.submit(_pipe, ctx, "MC_SrvInfoWire.tla", "Exp_wire_%s.cfg" % tier, [exe, "wire"], 2400)
        f_parse = None if quick else ex.submit(_pipe, ctx, "SrvInfoParse.tla", "Exp_parse_%s.cfg" % tier, [exe, "parse"], 1500)
        f_drv = ex.submit(core.run_harness, [exe, "drive", str(ctx.seed), tier, os.path.join(wd, "trace")], timeout=1200)

        rc, out = f_drv.result()
        if rc == 97:
            m = re.search(r"^HANG (.*)$", out, re.M)
            ctx.report("hang:drive", "direction B: a call did not return", {"case": m.group(1) if m else ""})
            files = []
        else:
            dsum = None
            for line in out.splitlines():
                if line.startswith("{") and '"summary"' in line:
                    dsum = json.loads(line)
            if rc != 0 or dsum is None:
                raise core.ToolError("vh-srvinfo drive failed (rc=%s)" % rc)
            files = dsum["files"]
        f_tr = ex.submit(_trace_verdict, ctx, files)

        _expect_violation(ctx, f_self1.result(), "PropertyHolds",
                          "the pinned merge model must violate the property-level invariants (F1)")
        _expect_violation(ctx, f_self2.result(), "MaskFits",
                          "the pinned off-by-one parser model must need mask bit 64 (D6)")
        for cfg, fut in f_mc:
            res = fut.result()
            ctx.add_states(res, "SrvInfo merge model " + cfg)
            if not res.ok:
                ctx.report("spec:" + cfg, "MC_SrvInfo violates %s: %s" % (res.violated, (res.error or "")[:300]),
                           {"tlc": res.out[-3000:]})
            # in the repaired model MergeRepeated_KnownBug must never be enabled
            zero = [a for a in res.zero_actions if not ("fixed" in cfg and a in ("DoMergeRepeated_KnownBug", "MergeRepeated_KnownBug"))
                    and not (a in ("DoTakeInfo", "TakeInfo") and ("pinned" in cfg or cfg == "MC_fixed_quick.cfg"))]
            if zero:
                raise core.ToolError("vacuity: actions never taken in %s: %s" % (cfg, zero))
        _wire_verdict(ctx, tier, f_wire.result())
        if f_parse is not None:
            _parse_verdict(ctx, tier, f_parse.result())
        for name, fut in f_merge:
            _merge_verdict(ctx, exe, tier, fut.result(), name)
        f_tr.result()
    ctx.coverage["exhaustive"] = True
    ctx.note("exhaustive within the model constants of the cfg files in spec/srvinfo; 64-client / 64-packet infos "
             "are covered by the validated traces only")


def replay(ctx, path):
    bins = core.build_harness(["vh-srvinfo"])
    exe = os.path.join(bins, "vh-srvinfo")
    stored = json.load(open(path))
    rep = stored.get("replay", {})
    rc, out = core.run_harness([exe, "case", path])
    if rc == 97:
        ctx.report("hang:replay", "the call did not return", rep)
        return
    if rc != 0:
        raise core.ToolError("vh-srvinfo case failed")
    if rep.get("kind") == "merge" and rep.get("history"):
        trace = os.path.join(ctx.workdir, "replay.ndjson")
        open(trace, "w").write(out)
        nev = len(out.strip().splitlines())
        _trace_verdict(ctx, [{"path": trace, "kind": "merge", "runs": 1, "events": nev}])
        if not ctx.violations and not ctx.known:
            print("replay: accepted")
        return
    res = json.loads(out.strip().splitlines()[-1])["result"]
    if "panic" in res:
        ctx.report(stored.get("key", "panic:replay"), "still panics: %s" % res["panic"][:200], rep)
    else:
        print("replay: returns %s" % json.dumps(res))
