"""C07 -- the Huffman codec is lossless, bounded and agrees with the reference.

Specification: spec/huffman (Huffman.tla: the format of doc/huffman.md generic in the code table,
validity of a table, Encode / EncodeRefCompat / Decode with the "endless zeros" rule, tree height of
a frequency vector; HuffTable.tla: the documented table, generated from the appendix of
doc/huffman.md at every run; HuffmanTrace.tla: judge of recorded behaviour).

(1) TLC checks the laws on the model for the documented table (quick: 2305 strings, thorough: all
    65 793 strings of length <= 2, as compressor input and as decompressor input at capacities
    0..3) and, thorough, for two hand-made complete codes (flat; with 24-bit code words).
(A) The same run exports every string with the compressed forms and decodings the specification
    prescribes; the harness executes them on libtw2-huffman (compress, compress_into,
    compress_bug, decompress, decompress_into, compressed_len(_bug)) and on the C++ reference.
    Cases that differ are judged by HuffmanTrace.tla.
(B) A seeded driver records structured / random inputs up to several KiB, valid streams,
    truncations, extensions, garbage at many capacities, for the built-in table and for tables
    built from frequency vectors (Huffman::from_frequencies, repr()), with the reference's
    outputs on the same events; HuffmanTrace.tla validates everything.
Known finding F2: from_frequencies panics when the tree is deeper than 24 (accepted by the named
action TablePanic_F2 only when the specification's TreeHeight of the logged vector is > 24).
"""
import hashlib
import json
import os
import subprocess
import sys

from checklib import codec, core

LEVEL = "model_checking"
COMP = "huffman"
TRACE_MOD, TRACE_CFG = "HuffmanTrace.tla", "HuffmanTrace.cfg"


def table_before(events, idx):
    a = idx
    while a > 0 and events[a]["e"] != "table":
        a -= 1
    return events[a]


def key_of(ev, seg):
    if ev["e"] == "table":
        h = hashlib.sha1(ev.get("freq_hex", "").encode()).hexdigest()[:8]
        if ev.get("res") == "panic":
            return "from_frequencies-panic:freq=%s" % h
        return "table:%s:invalid-code:freq=%s" % (ev.get("kind"), h)
    n = len(ev.get("in", []))
    bad = [r for r in ev.get("runs", []) if r.get("res") == "panic" or not r.get("canary", True)]
    tag = "panic-or-canary" if bad else "result"
    return "%s:%s:len=%d" % ("compress" if ev["e"] == "comp" else "decompress", tag, n)


def prepare_spec(ctx):
    sd = codec.spec_copy(ctx, COMP)
    r = subprocess.run([sys.executable, os.path.join(sd, "gen_table.py"), core.repo_root(), os.path.join(sd, "HuffTable.tla")],
                       stdout=subprocess.PIPE, stderr=subprocess.PIPE, text=True)
    if r.returncode == 3:
        ctx.report_drift("documentation: " + r.stderr.strip()[:300])
    elif r.returncode != 0:
        raise core.ToolError("gen_table.py failed: %s %s" % (r.stdout[-300:], r.stderr[-300:]))
    return sd


def judge(ctx, sd, path, label, timeout):
    """judge_trace with huffman specifics: the table in force is put in front of every replay
    segment, and a cut segment that is a table event takes its dependent events with it."""
    events_all = core.read_ndjson(path)

    def seg(events, idx):
        if events[idx]["e"] == "table":
            b = idx + 1
            while b < len(events) and events[b]["e"] != "table":
                b += 1
            return idx, b
        return idx, idx + 1

    # replay segments need their table: wrap ctx.report
    orig = ctx.report

    def report(key, message, replay_obj):
        if isinstance(replay_obj, dict) and "rejected" in replay_obj and replay_obj["rejected"].get("e") != "table":
            rej = replay_obj["rejected"]
            # the table in force: the last table event before the rejected event in the original trace
            pos = next((i for i, e in enumerate(events_all) if e is rej or e == rej), 0)
            replay_obj = dict(replay_obj, events=[table_before(events_all, pos)] + replay_obj["events"])
        return orig(key, message, replay_obj)

    ctx.report = report
    try:
        return codec.judge_trace(ctx, sd, TRACE_MOD, TRACE_CFG, path, seg, key_of, label, timeout=timeout)
    finally:
        ctx.report = orig


def judge_chunks(ctx, sd, path, label, timeout, nchunks):
    """The recorded trace is cut at its table events into `nchunks` files of about equal size that TLC validates
    concurrently; a chunk TLC rejects is judged again by `judge` (which reports, cuts the rejected segment out
    and goes on)."""
    events = core.read_ndjson(path)
    groups, cur = [], []
    for e in events:
        if e["e"] == "table" and cur:
            groups.append(cur)
            cur = []
        cur.append(e)
    if cur:
        groups.append(cur)
    chunks = [[] for _ in range(nchunks)]
    for g in sorted(groups, key=len, reverse=True):
        min(chunks, key=len).extend(g)
    chunks = [c for c in chunks if c]
    paths = []
    for i, c in enumerate(chunks):
        p = "%s.c%d" % (path, i)
        codec.write_events(p, c)
        paths.append(p)
    results = codec.parallel([(lambda p=p: codec.run_trace(ctx, sd, TRACE_MOD, TRACE_CFG, p, timeout=timeout)) for p in paths],
                             max_workers=nchunks)
    total_ok, drifts, f2 = 0, [], []
    for p, c, r in zip(paths, chunks, results):
        if r["accepted"]:
            ctx.coverage["traces_validated_against_impl"] += 1
            ctx.add_states(r["res"], "trace validation (%s): one state per consumed event" % label)
            total_ok += len(c)
            drifts += [w for (_, w) in r["drifts"]]
            f2 += [(c[i - 1], h) for (i, h) in r["f2"]]
        else:
            ok_n, d, f = judge(ctx, sd, p, label, timeout)
            total_ok += ok_n
            drifts += d
            f2 += f
    return total_ok, drifts, f2


def report_f2(ctx, f2):
    seen = set()
    for (ev, h) in f2:
        hh = hashlib.sha1(ev.get("freq_hex", "").encode()).hexdigest()[:8]
        key = "from_frequencies-depth>24:height=%d,freq=%s" % (h, hh)
        if key in seen:
            continue
        seen.add(key)
        ctx.report(key, "Huffman::from_frequencies panics (%s) for a frequency vector whose Huffman tree has height %d > 24 "
                   "(known finding F2)" % (ev.get("panic", "panic"), h),
                   {"kind": "F2", "events": [ev], "height": h})


def run(ctx):
    bins = core.build_harness([codec.BINPKG])
    vh = os.path.join(bins, "vh-huffman")
    sd = prepare_spec(ctx)
    quick = ctx.tier == "quick"
    freqs = os.path.join(core.repo_root(), "huffman", "data", "frequencies")
    tmo = 600 if quick else 2400

    def a_job():
        mm = os.path.join(ctx.workdir, "mismatch-huffman.ndjson")
        cfg = "MC_Huffman_quick.cfg" if quick else "MC_Huffman_thorough.cfg"
        res, summ, out, rc = codec.pipe(ctx, sd, "MC_Huffman.tla", cfg, [vh, "replay", freqs, mm], "Huffman laws (documented table)",
                                        workers=3 if quick else 8, timeout=tmo)
        return ("doc", mm, res, summ, out, rc)

    ftrace = os.path.join(ctx.workdir, "huffman-family-trace.ndjson")

    def f_job():
        # the systematic family of frequency vectors: model checked, every table built by the real from_frequencies
        mm = os.path.join(ctx.workdir, "mismatch-huffman-family.ndjson")
        cfg = "MC_HuffFreq_quick.cfg" if quick else "MC_HuffFreq_thorough.cfg"
        res, summ, out, rc = codec.pipe(ctx, sd, "MC_HuffFreq.tla", cfg, [vh, "replay-freq", str(ctx.seed), "quick" if quick else "full", mm, ftrace],
                                        "Huffman tables from the family of frequency vectors", workers=4 if quick else 8, timeout=tmo)
        return ("freq", mm, res, summ, out, rc)

    def model_job(table):
        res = core.run_tlc("MC_Huffman.tla", "MC_Huffman_%s.cfg" % table, cwd=sd, workers=2, timeout=tmo,
                           env=codec.java_env(ctx), heap="3g")
        return (table, res)

    trace = os.path.join(ctx.workdir, "huffman-trace.ndjson")
    cases, maxlen, tables = (12, 256, 24) if quick else (160, 4096, 96)

    def b_job():
        return core.run_harness([vh, "drive", freqs, str(ctx.seed), str(cases), str(maxlen), str(tables), trace], timeout=600)

    jobs = [a_job, b_job, f_job] + ([] if quick else [lambda: model_job("flat"), lambda: model_job("deep"), lambda: model_job("zeof")])
    results = codec.parallel(jobs, max_workers=6)
    (_, mm, res, summ, out, rc) = results[0]
    brc, bout = results[1]
    (_, fmm, fres, fsumm, fout, frc) = results[2]
    results = results[:2] + results[3:]

    evaluations, nontrivial = 0, 0
    linked = None
    codec.harness_failure(ctx, "C07", "replay of TLC vectors", rc, out)
    codec.check_model_run(ctx, res, "Huffman laws (documented table)")
    for (table, mres) in results[2:]:
        codec.check_model_run(ctx, mres, "Huffman laws (hand-made %s code, model only)" % table)
    if summ is not None:
        if summ["vectors"] == 0:
            raise core.ToolError("TLC exported no Huffman vector")
        linked = summ.get("reference_linked")
        evaluations += summ["calls"]
        nontrivial += summ["nontrivial"]
        ctx.add_run("replay on libtw2-huffman + C++ reference", vectors=summ["vectors"], calls=summ["calls"],
                    mismatching_vectors=summ["mismatch_cases"], reference_linked=linked)
        for s in summ.get("samples", [])[:2]:
            ctx.sample(s, limit=4)
        if summ["mismatch_cases"]:
            ok_n, drifts, f2 = judge(ctx, sd, mm, "direction A", tmo)
            for d in drifts:
                ctx.report_drift("direction A: " + d)
    elif rc == 0:
        raise core.ToolError("no summary from the harness")

    # both recorded traces (under the family's tables, direction B) are validated concurrently
    both = codec.parallel([
        (lambda: judge_chunks(ctx, sd, ftrace, "recorded under the family's tables", tmo, 2 if quick else 6)
         if (frc == 0 and codec.summary_of(fout)) else (0, [], [])),
        (lambda: judge_chunks(ctx, sd, trace, "direction B", tmo, 4 if quick else 6)
         if (brc == 0 and codec.summary_of(bout)) else (0, [], []))], max_workers=2)

    # ---- the family of frequency vectors
    codec.harness_failure(ctx, "C07", "replay of the frequency-vector family", frc, fout)
    codec.check_model_run(ctx, fres, "Huffman tables from the family of frequency vectors")
    if fsumm is not None:
        if fsumm["tables"] == 0:
            raise core.ToolError("TLC exported no frequency vector")
        evaluations += fsumm["calls"]
        nontrivial += fsumm["nontrivial"]
        ctx.add_run("frequency-vector family: from_frequencies vs Huffman!Build, vectors replayed", tables=fsumm["tables"],
                    tables_built=fsumm["tables_built"], tables_panicked_height_above_24=fsumm["tables_panicked"], heights=fsumm["heights"],
                    families=fsumm["families"], vectors=fsumm["vectors"], calls=fsumm["calls"], mismatching_tables=fsumm["mismatch_cases"],
                    recorded_events=fsumm["events"])
        if fsumm["mismatch_cases"]:
            ok_n, drifts, f2 = judge(ctx, sd, fmm, "direction A (frequency-vector family)", tmo)
            for d in drifts:
                ctx.report_drift("direction A (family): " + d)
            report_f2(ctx, f2)
        ok_n, drifts, f2 = both[0]
        for d in drifts:
            ctx.report_drift("family tables: " + d)
        report_f2(ctx, f2)
    elif frc == 0:
        raise core.ToolError("no summary from the harness (family)")

    codec.harness_failure(ctx, "C07", "driver", brc, bout)
    bs = codec.summary_of(bout)
    if brc == 0 and bs:
        linked = bs.get("reference_linked") if linked is None else linked
        ok_n, drifts, f2 = both[1]
        for d in drifts:
            ctx.report_drift("recorded trace: " + d)
        report_f2(ctx, f2)
        evaluations += bs["calls"]
        ctx.add_run("recorded trace validated by HuffmanTrace.tla", events=bs["events"], calls=bs["calls"], inputs=bs["cases"],
                    max_input_len=maxlen, frequency_tables=bs["tables"], tables_panicked=bs["tables_panicked"],
                    tables_accepted_as_F2=len(f2), events_accepted=ok_n,
                    tables_eof_all_zero=bs.get("tables_eof_all_zero"), tables_eof_ends_in_one=bs.get("tables_eof_ends_in_one"),
                    eof_len_min=bs.get("eof_len_min"), eof_len_max=bs.get("eof_len_max"),
                    run_inputs=bs.get("run_inputs"), run_alignments_min=bs.get("run_alignments_min"),
                    extreme_code_words_reached=bs.get("extremes"))
        evs = core.read_ndjson(trace)
        small = [e for e in evs if e["e"] != "table" and len(e["in"]) <= 12][:2]
        for e in small:
            ctx.sample({"recorded_event": e}, limit=6)
        if not quick:
            binding_selftest(ctx, sd, evs)

    if linked is False:
        ctx.assumptions.append("the C++ reference could not be linked: the reference clauses are NOT checked in this run")
    ctx.coverage["evaluations"] = evaluations
    ctx.coverage["distinct_nontrivial"] = nontrivial
    ctx.coverage["rule"] = ("non-empty byte strings enumerated by TLC (a set, hence distinct), each executed on libtw2-huffman as "
                            "compressor input (3 entry points, capacities around the exact length) and as decompressor input "
                            "(capacities 0..3), with the reference on the same input")
    ctx.coverage["exhaustive"] = True
    ctx.assumptions += [
        "the documented table (appendix of doc/huffman.md) is the format; it is re-extracted at every run",
        "the reference implementation adds frequencies as C ints: reference tables are only built (and compared) for frequency "
        "vectors whose sum is below 2^31; the reference compressor is always given enough room (it writes its last byte unchecked)",
        "'never writes past the buffer' is observed through capacity errors and canary bytes around the supplied buffer, not proved",
        "decoder termination is observed by a watchdog (20 s per call) and argued on the model by the bounded zero tail",
        "arbitrary tables are reached only through Huffman::from_frequencies (12 families of frequency vectors); the two hand-made "
        "tables with 24-bit code words are checked on the model only",
    ]


def binding_selftest(ctx, sd, evs):
    """Corrupt one logged field / drop one event: TLC must reject both."""
    tab = evs[0]
    comp = next((e for e in evs if e["e"] == "comp" and e["runs"] and e["runs"][0]["out"]), None)
    dec = next((e for e in evs if e["e"] == "decomp" and any(r["res"] == "ok" and r["out"] for r in e["runs"])), None)
    tests = []
    if comp:
        c = json.loads(json.dumps(comp))
        c["runs"][0]["out"][0] ^= 1
        tests.append(("corrupted compressed byte", [tab, c]))
        tests.append(("dropped table event", [comp]))
    if dec:
        c = json.loads(json.dumps(dec))
        r = next(r for r in c["runs"] if r["res"] == "ok" and r["out"])
        r["canary"] = False
        tests.append(("canary hit", [tab, c]))
    good = 0
    for name, c in tests:
        p = os.path.join(ctx.workdir, "binding-%s.ndjson" % name.replace(" ", "-"))
        codec.write_events(p, c)
        r = codec.run_trace(ctx, sd, TRACE_MOD, TRACE_CFG, p)
        if r["accepted"]:
            raise core.ToolError("binding self-test: the trace specification accepted a trace with a %s" % name)
        good += 1
    ctx.add_run("binding self-test", corrupted_traces_rejected=good)


def replay(ctx, path):
    bins = core.build_harness([codec.BINPKG])
    vh = os.path.join(bins, "vh-huffman")
    sd = prepare_spec(ctx)
    freqs = os.path.join(core.repo_root(), "huffman", "data", "frequencies")
    obj = json.load(open(path))
    events = obj["replay"].get("events") if isinstance(obj.get("replay"), dict) else None
    if not events:
        raise core.ToolError("replay file has no events (model-level finding?): %s" % path)
    src = os.path.join(ctx.workdir, "replay-in.ndjson")
    dst = os.path.join(ctx.workdir, "replay-out.ndjson")
    codec.write_events(src, events)
    rc, out = core.run_harness([vh, "rerun", freqs, src, dst])
    if codec.harness_failure(ctx, "C07", "replay", rc, out, {"events": events}):
        return
    ok_n, drifts, f2 = judge(ctx, sd, dst, "replay", 900)
    for d in drifts:
        ctx.report_drift(d)
    report_f2(ctx, f2)
    ctx.coverage["evaluations"] = len(events)
    ctx.sample({"replayed_events": [dict(e, repr="...") if e["e"] == "table" else e for e in core.read_ndjson(dst)[:4]]})
    print("replay: %d events re-executed, %s" % (len(events), "still rejected / known finding" if (ctx.violations or ctx.known) else "accepted now"))
