"""C17 — teehistorian reading is independent of stream fragmentation.

Deciding method: TLC on spec/teehist/*.tla.
  (1) MC_TeehistBuf: the buffer / fragmentation machine (Teehist.tla) for every stream of the
      model and every schedule of refills (0-byte reads, compaction, growth): WindowInv,
      FragmentationFree (= emitted events are Read(S), a function of the stream), PropsHold.
  (2) MC_TeehistTicks: every readable item stream over the alphabet: the reader as shaped
      satisfies the property-level acceptor (nesting, strictly increasing ticks, ticks as in
      doc/teehistorian.md, values = running sums = direct sums).  Self-test: with
      ResetOnSkip = FALSE (the tree before D7) TLC must find the counterexample.
  (A) both state graphs are exported (one line per stream / per complete schedule) and replayed
      into libtw2_teehistorian::verif::Reader by vh-teehist; outputs are compared with the
      spec's; every deviating case is judged by TLC with the property-level trace spec.
  (B) vh-teehist records traces of the real reader on generated server histories (real sizes,
      items > 8 KiB, truncations, byte corruption) under many fragmentations; TeehistTrace.tla
      validates them (mode detailed: every callback read and every output is a step of
      Teehist.tla; mode props: only what the user relies on).
Rejected by mode props / panic / hang => VIOLATION.  Rejected only by mode detailed => DRIFT."""
import concurrent.futures as cf
import json
import os
import re
import threading
import time

from checklib import core

LEVEL = "model_checking"
SPECDIR = os.path.join(core.SPEC, "teehist")
_lock = threading.Lock()
_n = [0]


def _jenv(ctx, extra=None):
    """own java.io.tmpdir: TLC unpacks its standard modules there, and /tmp is shared with other jobs"""
    d = os.path.join(ctx.workdir, "jtmp")
    os.makedirs(d, exist_ok=True)
    e = {"JAVA_TOOL_OPTIONS": "-Djava.io.tmpdir=" + d}
    if extra:
        e.update(extra)
    return e


def _metadir(ctx, tag):
    with _lock:
        _n[0] += 1
        return os.path.join(ctx.workdir, "tlc-%s-%d" % (tag, _n[0]))


def _validate(ctx, cfg, trace, timeout=900, heap="3g"):
    """TeehistTrace on one trace file. Returns (TlcResult, accepted, reject lines)."""
    res = core.run_tlc("TeehistTrace.tla", cfg, cwd=SPECDIR, workers=1, timeout=timeout,
                       env=_jenv(ctx, {"TRACE": os.path.abspath(trace)}), heap=heap, stack="1g", deque=True,
                       metadir=_metadir(ctx, "trace"))
    rej = [l for l in res.out.splitlines() if l.startswith('<<"REJECT"') or l.startswith('<<"PROP-REJECT"')
           or l.startswith('<<"TRACE REJECTED"')]
    accepted = res.ok and not rej
    return res, accepted, rej


def _pipe(ctx, module, cfg, exe, mis, timeout):
    time.sleep(0.05 * _n[0])
    with _lock:
        _n[0] += 1
    tres, rc, out = core.tlc_pipe(module, cfg, [exe, "replay", mis, str(ctx.seed)], cwd=SPECDIR, timeout=timeout, env=_jenv(ctx))
    if rc == 97:
        m = re.search(r"^HANG (.*)$", out, re.M)
        return tres, None, (m.group(1) if m else "{}")
    summ = None
    for line in out.splitlines():
        if line.startswith("{") and '"summary"' in line:
            summ = json.loads(line)
    if rc != 0 or summ is None:
        raise core.ToolError("vh-teehist replay failed (rc=%s) for %s" % (rc, cfg))
    tail = "\n".join(summ.get("tlc_tail", []))
    tres.out = tail
    core.parse_tlc(tail, tres)
    # parse_tlc needs rc of TLC; tlc_pipe stored it
    return tres, summ, None


def _runs_of(trace_path):
    """[(line index of R event, S)] of a trace file"""
    runs = []
    with open(trace_path) as fh:
        for no, line in enumerate(fh):
            if '"t":"R"' in line:
                try:
                    o = json.loads(line)
                except ValueError:
                    continue
                if o.get("t") == "R":
                    runs.append((no, o["S"]))
    return runs


def _kinds(S):
    if S.get("ver") == 0:
        return "corrupted-bytes"
    ks = []
    if isinstance(S.get("hd"), dict):
        h = S["hd"]
        ks.append("hd[%s%s%s/%s/%s/%s/%s/pad%s]" % (
            "" if h.get("magic", [0])[0] == 105 and h.get("magic")[15] == 209 and h.get("magic")[1] == 157 and h.get("magic")[8] == 177 else "badmagic/",
            "" if h.get("nul") else "nonul/", h.get("mal"), h.get("vtext"), h.get("ver"), h.get("var"), h.get("num"), h.get("pad")))
    for it in S.get("items", [])[:8]:
        k = it.get("k")
        ks.append(it.get("s") if k == "o" else (k + str(it["c"]) if "c" in it else k))
    if len(S.get("items", [])) > 8:
        ks.append("...")
    return ",".join(ks) + ",cut%s" % S.get("cut")


def _sizes_of_run(trace_path, run_no):
    """delivered sizes of the run_no-th (1-based) run of a trace file"""
    sizes, cur = [], 0
    with open(trace_path) as fh:
        for line in fh:
            if '"t":"R"' in line:
                cur += 1
            elif cur == run_no and '"t":"C"' in line:
                n = json.loads(line)["n"]
                if n >= 0:
                    sizes.append(n)
            elif cur > run_no:
                break
    return sizes


def _judge_props(ctx, trace, label, cases_by_run=None):
    """Property-level verdict for every run of `trace`. Returns number of rejected runs."""
    res, ok, rej = _validate(ctx, "Trace_props.cfg", trace)
    if res.error and not rej:
        raise core.ToolError("TLC failed judging %s: %s" % (label, (res.error or "")[:400]))
    rejected = {}
    for l in rej:
        m = re.match(r'<<"PROP-REJECT", (\d+), (\d+), "([^"]*)">>', l)
        if m:
            rejected[int(m.group(1))] = m.group(3)
    if not ok and not rejected:
        raise core.ToolError("property-level trace validation of %s neither accepted nor rejected: %s" % (
            label, res.out[-600:]))
    runs = _runs_of(trace)
    seen = set()
    order = sorted(rejected, key=lambda r: (len(runs[r - 1][1].get("items", [])) if r - 1 < len(runs) else 0, r))
    for run_no in order:
        why = rejected[run_no]
        S = runs[run_no - 1][1] if run_no - 1 < len(runs) else {}
        key = "%s:%s" % (why, _kinds(S))
        if key in seen or len([k for k in seen if k.startswith(why + ":")]) >= 3:
            continue
        seen.add(key)
        if cases_by_run and run_no in cases_by_run:
            c = cases_by_run[run_no]
            rep = {"S": c["S"], "sched": c.get("sched", []), "hm": c.get("hm", 0)}
        elif S.get("ver") == 0:
            rep = {"hex": S.get("hex", "")}
        else:
            rep = {"S": S, "sched": _sizes_of_run(trace, run_no), "hm": 0}
        ctx.report(key, "%s: the property-level spec (TeehistCore!PStep/PEnd) rejects what the reader did: %s" % (
            label, why), rep)
    return len(rejected), len(runs)


def _handle_export(ctx, label, tres, summ, hang, mis):
    if hang is not None:
        try:
            rep = json.loads(hang)
        except ValueError:
            rep = {"raw": hang}
        ctx.report("hang:" + _kinds(rep.get("S", {})) if isinstance(rep.get("S"), dict) else "hang",
                   "%s: a call into the reader did not return" % label, rep)
        return
    ctx.add_states(tres, label)
    if not tres.ok:
        ctx.report("spec:" + label, "the specification itself is violated (%s): %s" % (
            tres.violated, (tres.error or "")[:300]), {"tlc": tres.out[-2000:]})
    if summ["cases"] == 0:
        raise core.ToolError("%s exported no case" % label)
    ctx.coverage["evaluations"] += summ["runs"]
    ctx.coverage["distinct_nontrivial"] += summ["nontrivial"]
    for s in summ["samples"]:
        ctx.sample(s)
    ctx.add_run(label + " replay", cases=summ["cases"], runs=summ["runs"],
                mismatch_cases=summ["mismatch_cases"], panics=summ["panics"])
    if summ["mismatch_cases"]:
        cases_by_run, r = {}, 0
        for m in summ["mismatches"]:
            for _ in m["got"]:
                r += 1
                cases_by_run[r] = m["case"]
        nrej, nruns = _judge_props(ctx, mis, label, cases_by_run)
        ndrift = nruns - nrej
        if ndrift:
            ctx.report_drift("%s: %d replayed run(s) differ from the detailed spec (Teehist.tla) but are accepted by "
                             "the property-level spec; first: %s" % (label, ndrift, summ["mismatches"][0]["kinds"]))
        if summ["mismatch_cases"] > len(summ["mismatches"]):
            ctx.note("%s: %d further deviating cases were not judged individually" % (
                label, summ["mismatch_cases"] - len(summ["mismatches"])))


def _validate_file(ctx, f):
    """detailed validation (files of generated histories); property-level validation when the
    detailed one rejects, and for files the detailed spec cannot predict (corrupted bytes)"""
    path, mode = f["path"], f["mode"]
    t0 = time.time()
    ok, rej = None, []
    cover = 0
    if mode == "detailed":
        res, ok, rej = _validate(ctx, "Trace_detailed.cfg", path)
        if res.error and not rej:
            raise core.ToolError("TLC failed on %s: %s" % (path, (res.error or "")[:500]))
        cover = len([l for l in res.out.splitlines() if l.startswith('<<"COVER", "%s"' % f.get("need_cover", "-"))])
        if ok and f.get("need_cover") and cover == 0:
            raise core.ToolError("vacuity: %s never reached the state it was built for (%s)" % (path, f["need_cover"]))
    pok, prej = True, []
    if mode == "props" or not ok:
        pres, pok, prej = _validate(ctx, "Trace_props.cfg", path)
        if pres.error and not prej:
            raise core.ToolError("TLC failed on %s (props): %s" % (path, (pres.error or "")[:500]))
    return {"file": f, "ok": ok, "rej": rej, "pok": pok, "prej": prej, "wall": time.time() - t0, "cover": cover}


def _binding_selftest(ctx, trace):
    """corrupt one logged field / drop one event of a recorded (accepted) run: TLC must reject"""
    lines = []
    with open(trace) as fh:
        for line in fh:
            if '"t":"R"' in line and lines:
                break
            lines.append(line)
    idx = [i for i, l in enumerate(lines) if '"t":"O"' in l and '"e":"start"' in l]
    if not idx:
        raise core.ToolError("binding self-test: no TickStart in the first recorded run")
    i = idx[len(idx) // 2]
    o = json.loads(lines[i])
    o["ev"]["a"] += 1
    mut1 = lines[:i] + [json.dumps(o) + "\n"] + lines[i + 1:]
    mut2 = lines[:i] + lines[i + 1:]
    out = []
    for name, ls in (("corrupt-field", mut1), ("drop-event", mut2), ("unchanged", lines)):
        p = os.path.join(ctx.workdir, "selftest-%s.ndjson" % name)
        with open(p, "w") as fh:
            fh.writelines(ls)
        res, ok, rej = _validate(ctx, "Trace_detailed.cfg", p, timeout=300)
        res2, ok2, rej2 = _validate(ctx, "Trace_props.cfg", p, timeout=300)
        out.append((name, ok, ok2))
    want = [("corrupt-field", False, False), ("drop-event", False, False), ("unchanged", True, True)]
    if out != want:
        # on a tree with a genuine defect the unchanged run may itself be rejected; the two
        # mutated copies must be rejected in any case
        if any(ok or ok2 for (n, ok, ok2) in out[:2]):
            raise core.ToolError("binding self-test failed: a corrupted trace was accepted: %s" % out)
    ctx.add_run("binding self-test (corrupt one field / drop one event / unchanged)", result=out)


def run(ctx):
    quick = ctx.tier == "quick"
    tier = ctx.tier
    bins = core.build_harness(["vh-teehist"])
    exe = os.path.join(bins, "vh-teehist")
    rc, out = core.run_harness([exe, "hlen"])
    if rc != 0:
        raise core.ToolError("vh-teehist does not start")
    wd = ctx.workdir
    ctx.assumptions += [
        "client ids in generated and corrupted streams are <= 4095 (a hostile id makes the reader's VecMap "
        "allocate gigabytes: resource exhaustion is outside C17, DESIGN section 7); corrupted streams whose "
        "PLAYER_NEW/INPUT_NEW ids exceed it are skipped (count in runs)",
        "the read callback eventually delivers data or end-of-file (bounded number of consecutive 0-byte reads)",
        "the stream is handed over unchanged and in order; the header is the fixed valid header of the harness",
        "string / data contents of pass-through records are compared by the harness's projection (a differing "
        "content is projected as length -1, which no spec event has)",
    ]
    ctx.coverage["rule"] = ("distinct TLC-generated cases (item stream, or item stream x refill schedule) whose "
                            "expected event sequence has >= 3 events, each replayed into the real reader")
    mis1 = os.path.join(wd, "mis-ticks.ndjson")
    mis2 = os.path.join(wd, "mis-buf.ndjson")
    w = 2 if quick else 4
    with cf.ThreadPoolExecutor(max_workers=6) as ex:
        f_buf = ex.submit(core.run_tlc, "MC_TeehistBuf.tla", "MC_buf_%s.cfg" % tier, cwd=SPECDIR, workers=w,
                          timeout=1500, coverage=True, metadir=_metadir(ctx, "buf"), env=_jenv(ctx))
        f_pin = ex.submit(core.run_tlc, "MC_TeehistTicks.tla", "MC_ticks_pinned.cfg", cwd=SPECDIR, workers=1,
                          timeout=600, metadir=_metadir(ctx, "pin"), env=_jenv(ctx))
        f_e1 = ex.submit(_pipe, ctx, "MC_TeehistTicks.tla", "Exp_ticks_%s.cfg" % tier, exe, mis1, 2700)
        f_e2 = ex.submit(_pipe, ctx, "MC_TeehistBuf.tla", "Exp_buf_%s.cfg" % tier, exe, mis2, 2700)
        mis4 = os.path.join(wd, "mis-hdr.ndjson")
        f_e4 = ex.submit(_pipe, ctx, "MC_TeehistHdr.tla", "Exp_hdr_%s.cfg" % tier, exe, mis4, 2700)
        mis3 = os.path.join(wd, "mis-ticks2.ndjson")
        f_e3 = None if quick else ex.submit(_pipe, ctx, "MC_TeehistTicks.tla", "Exp_ticks_thorough2.cfg", exe, mis3, 1500)
        f_drv = ex.submit(core.run_harness, [exe, "drive", str(ctx.seed), tier, os.path.join(wd, "trace")],
                          timeout=1200)
        # ---- direction B
        rc, out = f_drv.result()
        if rc == 97:
            m = re.search(r"^HANG (.*)$", out, re.M)
            ctx.report("hang:drive", "direction B: a call into the reader did not return", {"case": m.group(1) if m else ""})
            files = []
            dsum = {"stats": {}}
        else:
            dsum = None
            for line in out.splitlines():
                if line.startswith("{") and '"summary"' in line:
                    dsum = json.loads(line)
            if rc != 0 or dsum is None:
                raise core.ToolError("vh-teehist drive failed (rc=%s)" % rc)
            files = dsum["files"]
        f_val = [ex.submit(_validate_file, ctx, f) for f in files]

        # ---- model checking results
        res = f_buf.result()
        ctx.add_states(res, "Teehist buffer/fragmentation machine (MC_buf_%s)" % tier)
        if not res.ok:
            ctx.report("spec:buffer-machine", "Teehist.tla violates %s: %s" % (res.violated, (res.error or "")[:300]),
                       {"tlc": res.out[-3000:]})
        if res.zero_actions:
            raise core.ToolError("vacuity: actions never taken in MC_buf_%s: %s" % (tier, res.zero_actions))
        pin = f_pin.result()
        ctx.add_run("self-test: ResetOnSkip=FALSE (tree before D7) must violate TicksAsDocumented",
                    violated=pin.violated, distinct=pin.distinct)
        if pin.violated != "TicksAsDocumented":
            raise core.ToolError("spec self-test failed: the model of the unfixed reader is not rejected (%s)" % pin)

        # ---- direction A
        exports = [("tick machine export (Exp_ticks_%s)" % tier, f_e1, mis1),
                   ("fragmentation schedules export (Exp_buf_%s)" % tier, f_e2, mis2)]
        exports.append(("header grammar export (Exp_hdr_%s)" % tier, f_e4, mis4))
        if f_e3 is not None:
            exports.append(("tick machine export (Exp_ticks_thorough2)", f_e3, mis3))
        for label, fut, mis in exports:
            tres, summ, hang = fut.result()
            _handle_export(ctx, label, tres, summ, hang, mis)

        # ---- direction B verdicts
        for f, fv in zip(files, f_val):
            v = fv.result()
            label = "trace " + os.path.basename(f["path"])
            nrej = 0
            if not v["pok"]:
                nrej, _ = _judge_props_from(ctx, f["path"], label, v["prej"])
                if nrej == 0:
                    raise core.ToolError("%s: property-level validation neither accepted nor rejected" % label)
            ctx.coverage["traces_validated_against_impl"] += f["runs"]
            ctx.add_run(label, mode=f["mode"], events=f["events"], runs=f["runs"],
                        detailed_accepted=v["ok"], props_rejected_runs=nrej, window_full_and_consumed=v["cover"],
                        wall_s=round(v["wall"], 1))
            if f["mode"] == "detailed" and not v["ok"] and nrej == 0:
                ctx.report_drift("%s: rejected by the detailed spec only: %s" % (label, " | ".join(v["rej"])[:400]))
        ctx.coverage["generator"] = dsum.get("stats", {})
        if files and not quick:
            _binding_selftest(ctx, files[0]["path"])
    ctx.coverage["exhaustive"] = True
    ctx.note("exhaustive within the stated model constants (cfg files in spec/teehist); real-size behaviour "
             "(8 KiB buffer, growth, compaction) is covered by the validated traces only")


def _judge_props_from(ctx, trace, label, rej):
    rejected = {}
    for l in rej:
        m = re.match(r'<<"PROP-REJECT", (\d+), (\d+), "([^"]*)">>', l)
        if m:
            rejected[int(m.group(1))] = m.group(3)
    runs = _runs_of(trace)
    seen = set()
    order = sorted(rejected, key=lambda r: (len(runs[r - 1][1].get("items", [])) if r - 1 < len(runs) else 0, r))
    for run_no in order:
        why = rejected[run_no]
        S = runs[run_no - 1][1] if run_no - 1 < len(runs) else {}
        key = "%s:%s" % (why, _kinds(S))
        if key in seen or len([k for k in seen if k.startswith(why + ":")]) >= 3:
            continue
        seen.add(key)
        if S.get("ver") == 0:
            rep = {"hex": S.get("hex", "")}
        else:
            rep = {"S": S, "sched": _sizes_of_run(trace, run_no), "hm": 0}
        ctx.report(key, "%s run %d: the property-level spec rejects what the reader did: %s" % (label, run_no, why), rep)
    return len(rejected), len(runs)


def replay(ctx, path):
    bins = core.build_harness(["vh-teehist"])
    exe = os.path.join(bins, "vh-teehist")
    trace = os.path.join(ctx.workdir, "replay.ndjson")
    rc, out = core.run_harness([exe, "case", path, trace])
    if rc == 97:
        ctx.report("hang:replay", "the reader did not return", json.load(open(path)).get("replay"))
        return
    if rc != 0:
        raise core.ToolError("vh-teehist case failed")
    res, ok, rej = _validate(ctx, "Trace_props.cfg", trace)
    if ok:
        print("replay: accepted by the property-level spec")
        return
    stored = json.load(open(path))
    _judge_props_from(ctx, trace, "replay", rej)
    if not ctx.violations and not ctx.known:
        raise core.ToolError("replay neither accepted nor rejected: %s" % res.out[-500:])
    print("replay of %s: still rejected (%s)" % (stored.get("key"), "; ".join(rej)[:300]))
