"""C11 - snapshot and delta parsers are total and enforce their limits.

TLC checks totality / limits / re-read laws of the parser operators of SnapAlg.tla on every
single-field corruption and truncation of valid wire forms (ints and bytes) and on cases at
the real limits (1024 items / 64 KiB), exports every case into the harness, which feeds it
to Snap::read / read_from_ints, Delta::read / read_from_ints and read_with_delta under
catch_unwind, a watchdog and a counting allocator and runs the follow-up operations of a
client; SnapAlgTrace.tla judges every recorded event (panic / hang / over-allocation / limit
breach / unequal re-read are violations; another error class is drift)."""
from checklib import core, snapalg

LEVEL = "model_checking"


def run(ctx):
    binp = snapalg.build()
    run_ = snapalg.Run(ctx)
    if ctx.tier == "quick":
        fams_laws = ["CorruptSnap", "CorruptDelta", "Registry", "TypeSweep", "Reuse", "ChainWrongQuick"]
        fams_a = ["CorruptSnap", "CorruptDelta", "BigSnap", "BigDelta", "Registry", "TypeSweep", "Reuse", "ChainWrongQuick"]
        nb, seeds, par = 600, 1, 4
        more_b = [("chainwrong", 5)]
    else:
        fams_laws = ["CorruptSnap", "CorruptDelta", "BigSnap", "BigDelta", "Registry", "TypeSweep", "Reuse", "ChainWrongQuick"]
        fams_a = list(fams_laws)
        nb, seeds, par = 6000, 6, 8
        more_b = [("chainwrong", 40)]
    paths = snapalg.run_all(ctx, run_, binp, fams_laws, fams_a, "parse", nb, seeds=seeds, par=par, law_workers=2, more_b=more_b)
    if ctx.tier == "thorough" and paths:
        def mut(ev):
            tgt = ev["raw"] if "raw" in ev else ev["d"]
            tgt["peak"] = 2000000000
            return "logged peak allocation raised to 2 GB"
        snapalg.binding_selftest(ctx, paths[0], mut)
    ctx.coverage["exhaustive"] = True
    ctx.assumptions += [
        "allocation bound judged by the trace spec: peak additional heap during a read/apply call <= 64 * input bytes + 64 KiB (counting global allocator of the harness)",
        "Delta::create is only run on accepted snapshots that agree on the length of common keys (documented contract of Delta::create); Delta::write is only run with the size table the delta was read with",
        "a hang is a library call that does not return within 20 s (watchdog)",
        "exhaustive over the corruption families of MC_SnapAlg.tla only; random words / bytes / corrupted real-size inputs are seeded samples",
    ]
    run_.finish("distinct parser inputs (snapshot or delta, ints or bytes), counted by digest of the case input")


def replay(ctx, path):
    snapalg.replay(ctx, path)
