"""C01 — connection layer (spec/conn): see checklib/conn.py and DESIGN.md §5 C01."""
from checklib import conn

LEVEL = "model_checking"


def run(ctx):
    conn.run_property(ctx, "C01")


def replay(ctx, path):
    conn.replay_file(ctx, "C01", path)
