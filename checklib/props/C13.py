"""C13 — client and server snapshot state never diverge silently.

Spec: spec/snapsync (SnapSyncOps: UUID registry / builder recycling, Delta create / size /
apply, sender Storage, receiver Manager = SnapRecvOps.Step + Storage::add_delta, property
judge; SnapSync: the model with lossy, duplicating, reordering message and ack paths;
SnapSyncExp: transition export; SnapSyncTrace: trace validation against both layers).
Code: snapshot/src/storage.rs (both roles), manager.rs, receiver.rs, snap.rs.

(A) every transition TLC generates is executed on a clone of the real system
    (sender Storage, real wire forms in flight, receiver Manager) kept per spec state;
    each deviation is re-executed as a schedule and the TLA+ property layer decides
    VIOLATION vs. DRIFT.
(B) long seeded lossy histories (hundreds of ticks, multi-part snapshots, UUID types,
    > 100 stored snapshots so that the receiver's cap evicts bases) are recorded and
    validated by TLC against both layers."""
import json
import os

from checklib import core
from checklib import snapproto as sp

LEVEL = "model_checking"
CWD = os.path.join(core.SPEC, "snapsync")

QUICK_EXPORTS = ["Exp_q_basic.cfg", "Exp_q_deep.cfg", "Exp_q_uuid.cfg", "Exp_q_swap.cfg", "Exp_q_acks.cfg", "Exp_clash.cfg"]
THOROUGH_EXPORTS = ["Exp_t_basic.cfg", "Exp_t_uuid.cfg", "Exp_t_acks.cfg", "Exp_q_deep.cfg", "Exp_q_swap.cfg", "Exp_q_acks.cfg", "Exp_clash.cfg"]
THOROUGH_MC = ["MC_t_big.cfg", "MC_t_uuid.cfg"]


def viol_key(v):
    cl = sorted(v.get("clauses", []))
    detail = v.get("detail", "") or ""
    if cl == ["uuid-lookup"]:
        return "uuid-lookup:accepted snapshot: item of a UUID type not found by Snap::item"
    if any(c.startswith("sender-") for c in cl):
        short = detail.split(" @")[0][:70]
        where = detail.split(" @")[1].split("/")[-1] if " @" in detail else ""
        return "%s:%s:%s:%s" % ("+".join(cl), v.get("what", ""), short, where)
    if any(c.startswith("outcome-") for c in cl):
        return "%s:%s:%s" % ("+".join(cl), v.get("what", ""), detail[:90])
    return "%s:%s" % ("+".join(cl), v.get("what", ""))


def schedule_of_run(events, upto_i=None):
    reset = events[0]
    steps = []
    for ev in events[1:]:
        if upto_i is not None and ev["_i"] > upto_i:
            break
        e = ev["e"]
        if e == "tick":
            steps.append({"a": "tick", "world": ev["world"]})
        elif e in ("deliver_msg", "deliver_ack"):
            steps.append({"a": e, "i": ev["i"], "keep": ev["keep"]})
        elif e in ("drop_msg", "drop_ack"):
            steps.append({"a": e, "i": ev["i"]})
        elif e == "client_ack":
            steps.append({"a": "client_ack"})
    return {"agreed": reset.get("agreed", []), "steps": steps}


def env_of(ctx):
    return {"RECYCLE": ctx.__dict__.get("_recycle", "free")}


PROBE = {"agreed": [], "steps": [
    {"a": "tick", "world": [{"ty": -2, "id": 1, "rep": 1, "d": [60]}]},
    {"a": "deliver_msg", "i": 1, "keep": False}, {"a": "client_ack"}, {"a": "deliver_ack", "i": 1, "keep": False},
    {"a": "tick", "world": [{"ty": -1, "id": 1, "rep": 1, "d": [3]}, {"ty": -2, "id": 1, "rep": 1, "d": [100]}]}]}


def detect_recycle_mode(ctx, bins):
    """Which registry Storage::new_builder starts from decides the numbering of UUID types and with it
    sizes and checksums the detailed spec predicts. Both variants are specified (SnapSyncOps.RecycleMode);
    the one that explains a two-tick probe of the real code is used."""
    trace = run_schedules(ctx, bins, [PROBE], "probe")
    if trace is None:
        return
    for mode in ("free", "newest"):
        ok, rj, res = sp.validate("SnapSyncTrace.tla", "Trace.cfg", trace, cwd=CWD, env={"RECYCLE": mode})
        if ok and rj is not None and not [d for d in rj["drift"] if d["what"] == "tick"]:
            ctx.__dict__["_recycle"] = mode
            ctx.note("new_builder numbering of UUID types follows specification variant RECYCLE=%s" % mode)
            return
    ctx.__dict__["_recycle"] = "free"
    ctx.report_drift("neither specified variant of the builder's UUID numbering explains the probe; using RECYCLE=free")


def continuations(sched):
    """A deviation may sit in state that the deviating step itself does not show (the sender's idea of
    its base, the receiver's part buffer): every deviating schedule is also re-executed with a short
    continuation -- one more server tick for each world of the configuration, then delivery of
    everything in flight, oldest first -- and the property layer judges the continuation as well."""
    out = []
    worlds = sched.get("worlds") or []
    for w in range(1, len(worlds) + 1):
        steps = list(sched["steps"]) + [{"a": "tick", "w": w}] + [{"a": "deliver_msg", "i": 1, "keep": False}] * 6
        out.append({"agreed": sched.get("agreed", []), "worlds": worlds, "steps": steps})
    return out


def judge_trace(ctx, trace_path, what):
    ok, rj, res = sp.validate("SnapSyncTrace.tla", "Trace.cfg", trace_path, cwd=CWD, timeout=1500, heap="6g", env=env_of(ctx))
    if rj is None:
        raise core.ToolError("trace spec printed no RESULT for %s: %s" % (trace_path, res.out[-1500:]))
    ctx.coverage["traces_validated_against_impl"] += 1
    ctx.coverage["evaluations"] += rj["events"]
    ctx.add_run("trace validation: " + what, events=rj["events"], deliveries_judged_by_property_layer=rj["judged"],
                accepted_snapshots=rj["accepted"], detailed_mismatches=rj["ndrift"], property_violations=rj["nviol"],
                consumed=ok, wall_s=round(res.wall_s, 1))
    if not ok:
        ctx.report("trace-not-consumed:" + what, "TLC did not consume the whole trace %s" % trace_path, {"trace": trace_path})
        return rj
    runs = None
    seen = ctx.__dict__.setdefault("_c13_keys", set())
    viol_events = set()
    for v in rj["viol"]:
        viol_events.add(v["i"])
        key = viol_key(v)
        if key in seen:
            continue
        seen.add(key)
        if runs is None:
            runs = sp.split_runs(trace_path)
        sched = schedule_of_run(runs[v["run"]], upto_i=v["i"])
        ctx.report(key, "property layer of SnapSync rejects event %d (%s) of %s: clauses=%s %s"
                   % (v["i"], v.get("what"), what, sorted(v["clauses"]), v.get("detail", "")),
                   {"schedule": sched, "verdict": v})
    if rj["nviol"] > len(rj["viol"]):
        ctx.note("%s: %d property-layer rejections, first %d listed" % (what, rj["nviol"], len(rj["viol"])))
    drift_only = [d for d in rj["drift"] if d["i"] not in viol_events]
    if drift_only:
        kinds = sorted(set("%s:%s" % (d["what"], "+".join(sorted(d.get("fields", [])))) for d in drift_only))
        ctx.report_drift("%s: %d event(s) differ from the detailed spec only (%s; first: event %d); the property layer accepts them"
                         % (what, rj["ndrift"] if rj["ndrift"] > len(rj["drift"]) else len(drift_only), ", ".join(kinds[:6]), drift_only[0]["i"]))
    return rj


def run_schedules(ctx, bins, schedules, name):
    path = os.path.join(ctx.workdir, name + ".sched.json")
    trace = os.path.join(ctx.workdir, name + ".ndjson")
    json.dump({"runs": schedules}, open(path, "w"))
    rc, out = core.run_harness([sp.exe(bins), "sync-run", path, trace], timeout=900)
    if rc == 97:
        ctx.report("hang:sync-run", "a call into the snapshot code did not return: %s" % out[-400:], {"runs": schedules})
        return None
    if rc != 0:
        raise core.ToolError("sync-run exit %s" % rc)
    return trace


def binding_selftest(ctx, trace_path):
    """Corrupt one accepted item / drop one delivery of a recorded trace: TLC must object."""
    runs = sp.split_runs(trace_path)
    corrupted = dropped = None
    for k in sorted(runs):
        evs = runs[k]
        for idx, ev in enumerate(evs):
            if ev["e"] != "deliver_msg" or ev["out"]["r"] != "ok" or not ev["out"]["view"]:
                continue
            with_data = [k2 for k2, it in enumerate(ev["out"]["view"]) if it["d"]]
            if corrupted is None and with_data:
                c = json.loads(json.dumps(evs[:idx + 1]))
                c[idx]["out"]["view"][with_data[0]]["d"][0] += 1
                corrupted = c
            elif dropped is None and idx + 1 < len(evs):
                # drop the accepting delivery: later events then disagree with the spec's receiver
                d = json.loads(json.dumps(evs[:min(len(evs), idx + 40)]))
                del d[idx]
                if any(e["e"] == "deliver_msg" for e in d[idx:]):
                    dropped = d
            if corrupted is not None and dropped is not None:
                break
        if corrupted is not None and dropped is not None:
            break
    if corrupted is None or dropped is None:
        ctx.note("binding self-test skipped: no suitable run in the recorded trace")
        return
    path = os.path.join(ctx.workdir, "selftest.ndjson")
    with open(path, "w") as fh:
        for n, evs in enumerate((corrupted, dropped), start=1):
            for ev in evs:
                ev = dict(ev)
                ev.pop("_i", None)
                if ev["e"] == "reset":
                    ev["run"] = n
                fh.write(json.dumps(ev) + "\n")
    ok, rj, res = sp.validate("SnapSyncTrace.tla", "Trace.cfg", path, cwd=CWD, env=env_of(ctx))
    bad1 = any(v["run"] == 1 and "accepted-differs-from-built" in v["clauses"] for v in (rj or {}).get("viol", []))
    bad2 = any(d["run"] == 2 for d in (rj or {}).get("drift", [])) or any(v["run"] == 2 for v in (rj or {}).get("viol", []))
    ctx.add_run("binding self-test (one corrupted accepted item, one dropped delivery)", corrupted_rejected=bad1,
                dropped_noticed=bad2)
    if not (bad1 and bad2):
        raise core.ToolError("binding self-test failed: corrupted=%s dropped=%s" % (bad1, bad2))


def run(ctx):
    bins = core.build_harness([sp.PKG])
    thorough = ctx.tier == "thorough"
    ctx.coverage["rule"] = ("one case = one action (server tick with a chosen world, delivery/duplication/loss of a chosen snapshot "
                            "message or acknowledgement, client ack) executed on the real Storage/Manager pair in a distinct system "
                            "state: transitions of the TLC exports replayed + events of recorded traces")
    ctx.assumptions += [
        "the application adds ordinal-typed items before UUID-typed items, UUID types in ascending order (fixes the registry numbering the spec predicts)",
        "model item values are small (no 32-bit wrap in checksums); real multi-part sizes come from repeating each integer (rep) times",
        "item length is a function of the user-level type; pre-agreed sizes (object_size) match the items built",
        "the receiver's cap of 100 stored snapshots is only reached in recorded traces (direction B), never in the bounded model",
        "UUID types of differing item length whose numbering collides are a configuration of their own (Exp_clash)",
    ]

    detect_recycle_mode(ctx, bins)
    env = env_of(ctx)

    # ---- 1. model check with coverage (vacuity) and, in the thorough tier, the larger configurations without export
    res = core.run_tlc("MCS.tla", "MC_cover.cfg", cwd=CWD, workers=4, timeout=900, coverage=True, env=env)
    ctx.add_states(res, "SnapSync MC_cover (coverage)")
    if not res.ok:
        ctx.report("spec:" + str(res.violated or res.error), "SnapSync model check failed: %s" % (res.violated or res.error), {"cfg": "MC_cover.cfg"})
        return
    if res.zero_actions:
        raise core.ToolError("vacuous configuration: actions never taken: %s" % res.zero_actions)
    resc = core.run_tlc("MCS.tla", "MC_clash.cfg", cwd=CWD, workers=2, timeout=600, env=env)
    ctx.add_states(resc, "SnapSync MC_clash (UUID types of differing length: the model itself predicts the sender panic)")
    if resc.violated not in (None, "SenderNeverPanics") or resc.error:
        ctx.report("spec:MC_clash:%s" % (resc.violated or resc.error), "unexpected result of MC_clash", {"cfg": "MC_clash.cfg"})
    ctx.add_run("MC_clash verdict", model_predicts_sender_panic=(resc.violated == "SenderNeverPanics"))
    if thorough:
        for cfg in THOROUGH_MC:
            r = core.run_tlc("MCS.tla", cfg, cwd=CWD, workers=8, timeout=1500, heap="8g", env=env)
            ctx.add_states(r, "SnapSync %s (model check only)" % cfg)
            if not r.ok:
                ctx.report("spec:%s:%s" % (cfg, r.violated or r.error), "SnapSync model check of %s failed" % cfg, {"cfg": cfg})

    # ---- 2. direction A
    cfgs = THOROUGH_EXPORTS if thorough else QUICK_EXPORTS
    exports = sp.run_exports("MCS.tla", cfgs, CWD, [sp.exe(bins), "sync-replay"], parallel=7 if thorough else 6,
                             timeout=2400 if thorough else 900, env=env)
    schedules = []
    sigs = set()
    for ex in exports:
        if ex.hang is not None:
            ctx.report("hang:sync-replay", "a call into the snapshot code did not return (%s)" % ex.cfg,
                       {"schedule": json.loads(ex.hang) if ex.hang.startswith("{") else ex.hang})
            continue
        if ex.rc != 0 or ex.summary is None:
            raise core.ToolError("export/replay of %s failed (harness exit %s)" % (ex.cfg, ex.rc))
        ctx.add_states(ex.tlc, "SnapSync %s (model check + export)" % ex.cfg)
        if not ex.tlc.ok:
            ctx.report("spec:%s:%s" % (ex.cfg, ex.tlc.violated or ex.tlc.error), "SnapSync model check of %s failed: %s" % (ex.cfg, ex.tlc.violated or ex.tlc.error), {"cfg": ex.cfg})
            continue
        s = ex.summary
        if s["transitions"] + 1 != ex.tlc.generated or s["states"] != ex.tlc.distinct:
            raise core.ToolError("%s: replayed %d transitions / %d states but TLC reports %d / %d" % (
                ex.cfg, s["transitions"], s["states"], ex.tlc.generated, ex.tlc.distinct))
        if s["misaligned_sources"]:
            ctx.note("%s: %d source states whose observables differ between the spec and the real system" % (ex.cfg, s["misaligned_sources"]))
        ctx.coverage["evaluations"] += s["transitions"]
        ctx.coverage["distinct_nontrivial"] += s["transitions"]
        ctx.add_run("replay %s on Storage/Manager" % ex.cfg, transitions=s["transitions"], spec_states=s["states"],
                    accepted=s["accepted"], rejected=s["rejected"], multi_part_ticks=s["multi_part_ticks"],
                    mismatches=s["mismatches"], panics=s["panics"], signatures=s["signatures"], wall_s=round(ex.wall, 1))
        for smp in s.get("sample", [])[:1]:
            ctx.sample({"cfg": ex.cfg, "steps": smp["steps"], "real_output": smp["real_out"]})
        for m in ex.mismatches:
            schedules.append(m["schedule"])
            schedules.extend(continuations(m["schedule"]))
            sigs.add(m["sig"])
    ctx.coverage["exhaustive"] = True
    if schedules:
        ctx.note("direction A: %d deviating transitions kept for judgement (signatures: %s)" % (len(schedules), sorted(sigs)))
        trace = run_schedules(ctx, bins, schedules, "deviations")
        if trace:
            judge_trace(ctx, trace, "re-executed deviations of direction A")

    # ---- 3. direction B
    plans = [(1, 150)] if not thorough else [(6, 300), (6, 300), (8, 200)]
    for k, (nruns, nticks) in enumerate(plans):
        trace = os.path.join(ctx.workdir, "drive%d.ndjson" % k)
        seed = ctx.seed * 1000 + k
        rc, out = core.run_harness([sp.exe(bins), "sync-drive", str(seed), str(nruns), str(nticks), trace], timeout=900)
        recs, hang = sp.parse_lines(out)
        if rc == 97 or hang:
            ctx.report("hang:sync-drive", "a call into the snapshot code did not return: %s" % hang, {"drive": {"seed": seed, "runs": nruns, "ticks": nticks}})
            continue
        if rc != 0 or not recs:
            raise core.ToolError("sync-drive exit %s" % rc)
        ctx.add_run("sync-drive (lossy random histories)", **{k2: v for k2, v in recs[-1].items() if k2 != "kind"})
        ctx.coverage["distinct_nontrivial"] += recs[-1]["events"]
        judge_trace(ctx, trace, "random lossy histories seed %d" % seed)
        if k == 0:
            binding_selftest(ctx, trace)


def replay(ctx, path):
    bins = core.build_harness([sp.PKG])
    detect_recycle_mode(ctx, bins)
    obj = json.load(open(path))
    rp = obj.get("replay", obj)
    if "schedule" in rp:
        schedules = [rp["schedule"]]
    elif "runs" in rp:
        schedules = rp["runs"]
    else:
        raise core.ToolError("replay file has no schedule")
    trace = run_schedules(ctx, bins, schedules, "replay")
    if trace:
        rj = judge_trace(ctx, trace, "replay of %s" % os.path.basename(path))
        core.log("[replay] events=%d property-layer rejections=%d detailed mismatches=%d" % (rj["events"], rj["nviol"], rj["ndrift"]))
