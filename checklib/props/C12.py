"""C12 — multi-part snapshot transfer reassembles exactly once.

Spec: spec/snaprecv (SnapRecvOps: sender ChunkSeq, detailed receiver Step, property
layer PStep/PJudge; SnapRecv: the model; SnapRecvExp: transition export;
SnapRecvTrace: trace validation against both layers).
Code: snapshot/src/snap.rs delta_chunks, snapshot/src/receiver.rs DeltaReceiver,
gamenet/snap/src/lib.rs (wire form of the three messages).

(A) every transition TLC generates is executed on a clone of the real receiver kept
    per spec state; each deviation is re-executed as a schedule and the TLA+
    property layer decides VIOLATION vs. DRIFT.
(B) seeded random histories with real-size data (0..32 parts) are recorded and
    validated by TLC against both layers."""
import json
import os

from checklib import core
from checklib import snapproto as sp

LEVEL = "model_checking"
CWD = os.path.join(core.SPEC, "snaprecv")

QUICK_EXPORTS = ["Exp_basic.cfg", "Exp_multi.cfg", "Exp_extreme.cfg", "Exp_overflow.cfg", "Exp_clash.cfg", "Exp_max.cfg", "Exp_tree_q.cfg"]
THOROUGH_EXPORTS = ["Exp_basic.cfg", "Exp_multi_t.cfg", "Exp_extreme.cfg", "Exp_overflow.cfg", "Exp_clash_t.cfg", "Exp_max.cfg",
                    "Exp_tree_t.cfg", "Exp_treemulti_t.cfg"]


def viol_key(v):
    clauses = "+".join(sorted(v.get("clauses", [])))
    w = ",".join(sorted(v.get("w", [])))
    if "sender-panic" in v.get("clauses", []):
        return "sender-panic:delta_chunks:%s" % (v.get("detail", "")[:60])
    if "sender-no-messages" in v.get("clauses", []):
        return "sender-no-messages:delta_chunks:data of %s part(s)" % v.get("n", "?")
    if any(c.startswith("outcome-") for c in v.get("clauses", [])):
        return "%s:%s:%s" % (clauses, v.get("k", ""), v.get("detail", "")[:80])
    return "%s:%s:%s" % (clauses, w, v.get("k", ""))


def schedule_of_run(events):
    """Operational schedule (transfers + deliveries) of one recorded run."""
    reset = events[0]
    steps = []
    for ev in events[1:]:
        if ev["e"] == "recv":
            steps.append({"a": "recv", "tr": ev["tr"], "j": ev["j"], "m": ev["m"]})
        elif ev["e"] == "extra":
            steps.append({"a": "extra", "m": ev["m"]})
    return {"transfers": reset["transfers"], "consistent": reset.get("consistent", True), "steps": steps}


def judge_trace(ctx, trace_path, what, expect_clean_detail=True):
    """Validates a recorded trace with SnapRecvTrace; reports violations (with the
    schedule of the offending run as replay) and drift. Returns the result JSON."""
    ok, rj, res = sp.validate("SnapRecvTrace.tla", "Trace.cfg", trace_path, cwd=CWD)
    if rj is None:
        raise core.ToolError("trace spec printed no RESULT for %s: %s" % (trace_path, res.out[-1500:]))
    ctx.coverage["traces_validated_against_impl"] += 1
    ctx.coverage["evaluations"] += rj["events"]
    ctx.add_run("trace validation: " + what, events=rj["events"], judged_by_property_layer=rj["judged"],
                detailed_mismatches=rj["ndrift"], property_violations=rj["nviol"], consumed=ok,
                wall_s=round(res.wall_s, 1))
    if not ok:
        ctx.report("trace-not-consumed:" + what, "TLC did not consume the whole trace %s" % trace_path,
                   {"trace": trace_path})
        return rj
    runs = None
    seen = ctx.__dict__.setdefault("_c12_keys", set())
    viol_runs = set()
    for v in rj["viol"]:
        viol_runs.add(v["run"])
        key = viol_key(v)
        if key in seen:
            continue
        seen.add(key)
        if runs is None:
            runs = sp.split_runs(trace_path)
        sched = schedule_of_run(runs[v["run"]])
        # cut the schedule after the offending event
        n_before = len([e for e in runs[v["run"]] if e["e"] in ("recv", "extra") and e["_i"] <= v["i"]])
        sched["steps"] = sched["steps"][:n_before]
        ctx.report(key, "property layer of SnapRecv rejects event %d of %s: clauses=%s warnings=%s message kind=%s tick=%s base=%s parts=%s %s"
                   % (v["i"], what, sorted(v["clauses"]), sorted(v["w"]), v["k"], v["t"], v["b"], v["n"], v.get("detail", "")),
                   {"schedule": sched, "verdict": v})
    if rj["nviol"] > len(rj["viol"]):
        ctx.note("%s: %d property-layer rejections, first %d listed" % (what, rj["nviol"], len(rj["viol"])))
    ndrift_only = [d for d in rj["drift"] if d["run"] not in viol_runs]
    if ndrift_only:
        d = ndrift_only[0]
        ctx.report_drift("%s: %d event(s) differ from the detailed receiver spec only (first: event %d, %s %s); the property layer accepts them"
                         % (what, len(ndrift_only), d["i"], d["what"], sorted(d.get("fields", []))))
    return rj


def run_schedules(ctx, bins, schedules, name):
    path = os.path.join(ctx.workdir, name + ".sched.json")
    trace = os.path.join(ctx.workdir, name + ".ndjson")
    json.dump({"runs": schedules}, open(path, "w"))
    rc, out = core.run_harness([sp.exe(bins), "recv-run", path, trace], timeout=600)
    if rc == 97:
        ctx.report("hang:recv-run", "a receiver call did not return: %s" % out[-400:], {"runs": schedules})
        return None
    if rc != 0:
        raise core.ToolError("recv-run exit %s" % rc)
    return trace


def binding_selftest(ctx, trace_path):
    """Corrupt one logged field / drop one event of a recorded trace: TLC must object."""
    runs = sp.split_runs(trace_path)
    corrupted = dropped = None
    for k in sorted(runs):
        evs = runs[k]
        if not evs[0].get("consistent", True):
            continue
        for idx, ev in enumerate(evs):
            if ev["e"] != "recv" or ev["out"]["r"] != "done" or not ev["out"]["hd"] or ev["out"]["w"]:
                continue
            if corrupted is None:
                c = json.loads(json.dumps(evs))
                c[idx]["out"]["crc"] = (c[idx]["out"]["crc"] + 1) if c[idx]["out"]["crc"] < 2**31 - 1 else 0
                corrupted = c
                break
            # drop an earlier, unrepeated "none" delivery of the same transfer
            tr = ev["tr"]
            cands = [i for i, e in enumerate(evs[:idx]) if e["e"] == "recv" and e["tr"] == tr and e["out"]["r"] == "none"]
            cands = [i for i in cands if len([x for x in evs[:idx] if x["e"] == "recv" and x["tr"] == tr and x["j"] == evs[i]["j"]]) == 1]
            if cands and dropped is None:
                d = json.loads(json.dumps(evs))
                del d[cands[-1]]
                dropped = d
                break
        if corrupted is not None and dropped is not None:
            break
    if corrupted is None or dropped is None:
        ctx.note("binding self-test skipped: no suitable run in the recorded trace")
        return
    path = os.path.join(ctx.workdir, "selftest.ndjson")
    with open(path, "w") as fh:
        for n, evs in enumerate((corrupted, dropped), start=1):
            for ev in evs:
                ev = dict(ev)
                ev.pop("_i", None)
                if ev["e"] == "reset":
                    ev["run"] = n
                fh.write(json.dumps(ev) + "\n")
    ok, rj, res = sp.validate("SnapRecvTrace.tla", "Trace.cfg", path, cwd=CWD)
    bad_runs = set(v["run"] for v in (rj or {}).get("viol", []))
    detected = bad_runs >= {1, 2}
    ctx.add_run("binding self-test (one corrupted crc, one dropped delivery)", detected=detected,
                rejected_runs=sorted(bad_runs))
    if not detected:
        raise core.ToolError("binding self-test failed: corrupted/dropped trace was accepted (runs rejected: %s)" % sorted(bad_runs))


def run(ctx):
    bins = core.build_harness([sp.PKG])
    thorough = ctx.tier == "thorough"
    ctx.coverage["rule"] = ("one case = one delivery of a snapshot message executed on the real DeltaReceiver in a distinct "
                            "(receiver state or full delivery history, message) context: transitions of the TLC exports "
                            "replayed + delivery events of recorded traces")
    ctx.assumptions += [
        "data blocks are pseudo-random bytes derived from (transfer id, length); received bytes are mapped back to segments of those blocks",
        "transfers of one run use distinct ticks unless the run is marked inconsistent (then only the detailed layer is compared)",
        "the random driver keeps tick - base inside i32 (the overflow case is a model configuration of its own)",
        "data length is at most 32 parts' worth (28800 bytes), as the property states",
    ]

    # ---- 1. model check with coverage (vacuity)
    res = core.run_tlc("MC.tla", "MC_cover.cfg", cwd=CWD, workers=2, timeout=600, coverage=True)
    ctx.add_states(res, "SnapRecv MC_cover (clashing transfers + malformed messages, coverage)")
    if not res.ok:
        ctx.report("spec:" + str(res.violated or res.error), "SnapRecv model check failed: %s" % (res.violated or res.error), {"cfg": "MC_cover.cfg"})
        return
    if res.zero_actions:
        raise core.ToolError("vacuous configuration: actions never taken: %s" % res.zero_actions)

    # ---- 2. direction A: export + replay (each export also model-checks its configuration)
    cfgs = THOROUGH_EXPORTS if thorough else QUICK_EXPORTS
    exports = sp.run_exports("MC.tla", cfgs, CWD, [sp.exe(bins), "recv-replay"], parallel=5,
                             timeout=1500 if thorough else 600)
    schedules = []
    sched_sig = []
    for ex in exports:
        if ex.hang is not None:
            ctx.report("hang:recv-replay", "a call into the receiver did not return (%s)" % ex.cfg, {"schedule": json.loads(ex.hang) if ex.hang.startswith("{") else ex.hang})
            continue
        if ex.rc != 0 or ex.summary is None:
            raise core.ToolError("export/replay of %s failed (harness exit %s)" % (ex.cfg, ex.rc))
        ctx.add_states(ex.tlc, "SnapRecv %s (model check + export)" % ex.cfg)
        if not ex.tlc.ok:
            ctx.report("spec:%s:%s" % (ex.cfg, ex.tlc.violated or ex.tlc.error), "SnapRecv model check of %s failed: %s" % (ex.cfg, ex.tlc.violated or ex.tlc.error), {"cfg": ex.cfg})
            continue
        s = ex.summary
        if s["transitions"] + 1 != ex.tlc.generated:
            raise core.ToolError("%s: replayed %d transitions but TLC generated %d states" % (ex.cfg, s["transitions"], ex.tlc.generated))
        ctx.coverage["evaluations"] += s["transitions"]
        ctx.coverage["distinct_nontrivial"] += s["transitions"]
        ctx.add_run("replay %s on DeltaReceiver" % ex.cfg, transitions=s["transitions"], spec_states=s["states"],
                    done_outputs=s["done"], mismatches=s["mismatches"], chunk_mismatches=s["chunk_mismatches"],
                    panics=s["panics"], signatures=s["signatures"], wall_s=round(ex.wall, 1))
        for smp in s.get("sample", [])[:1]:
            ctx.sample({"cfg": ex.cfg, "schedule_steps": smp["schedule"]["steps"], "real_output": smp["real_out"]})
        for m in ex.mismatches:
            schedules.append(m["schedule"])
            sched_sig.append((ex.cfg, m["sig"]))
    ctx.coverage["exhaustive"] = True

    if schedules:
        ctx.note("direction A: %d deviating transitions kept for judgement (signatures: %s)" % (
            len(schedules), sorted(set(s for _, s in sched_sig))))
        trace = run_schedules(ctx, bins, schedules, "deviations")
        if trace:
            judge_trace(ctx, trace, "re-executed deviations of direction A")

    # ---- 3. direction B: random histories with real sizes
    nruns = 400 if thorough else 40
    for k in range(3 if thorough else 1):
        trace = os.path.join(ctx.workdir, "drive%d.ndjson" % k)
        rc, out = core.run_harness([sp.exe(bins), "recv-drive", str(ctx.seed * 1000 + k), str(nruns), trace], timeout=900)
        recs, hang = sp.parse_lines(out)
        if rc == 97 or hang:
            ctx.report("hang:recv-drive", "a call into the receiver did not return: %s" % hang, {"drive": {"seed": ctx.seed * 1000 + k, "runs": nruns}})
            continue
        if rc != 0 or not recs:
            raise core.ToolError("recv-drive exit %s" % rc)
        ctx.add_run("recv-drive (random histories, real sizes)", **{k2: v for k2, v in recs[-1].items() if k2 != "kind"})
        ctx.coverage["distinct_nontrivial"] += recs[-1]["events"]
        judge_trace(ctx, trace, "random histories seed %d" % (ctx.seed * 1000 + k))
        if k == 0:
            binding_selftest(ctx, trace)


def replay(ctx, path):
    bins = core.build_harness([sp.PKG])
    obj = json.load(open(path))
    rp = obj.get("replay", obj)
    if "schedule" in rp:
        schedules = [rp["schedule"]]
    elif "runs" in rp:
        schedules = rp["runs"]
    else:
        raise core.ToolError("replay file has no schedule")
    trace = run_schedules(ctx, bins, schedules, "replay")
    if trace:
        rj = judge_trace(ctx, trace, "replay of %s" % os.path.basename(path))
        core.log("[replay] events=%d property-layer rejections=%d detailed mismatches=%d" % (rj["events"], rj["nviol"], rj["ndrift"]))
