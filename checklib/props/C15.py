"""C15 -- a recorded demo plays back what was recorded.

Specs (spec/demo): Demo.tla (container: tick markers, size encodings, writer / reader tick
machines, byte-exact chunk headers), DemoHi.tla (DemoWriter / DemoReader: key-frame rule,
delta chain, refusal of non-increasing ticks), MC_Demo / MC_DemoHi (bounded instances and
graph export), DemoTrace / DemoHiTrace (trace validation).

Direction A: TLC model-checks the bounded instances and exports their graphs; vh-demo walks
every path, replays it through the real Writer -> file -> Reader (low level) and
DemoWriter -> file -> DemoReader + raw Reader (typed level) and compares header bytes, size
encodings, returned chunks, warnings, object sets, key-frame flags with TLC's labels.
Direction B: seeded random long recordings, validated event by event by the trace specs.
"""
import json
import os
import re
import threading
import time

from checklib import core

LEVEL = "model_checking"
SPECDIR = os.path.join(core.SPEC, "demo")
CRASH_SIGNALS = (-4, -6, -7, -8, -11, 132, 134, 135, 136, 139)

# ---------------------------------------------------------------- configurations
# StartTicks are indices into MC_Demo!StartTick (1: 0, 2: 7, 3: -5, 4: 2147483600, 5: -2^31);
# wide: message classes by varint width of the 4-byte groups (vh-demo: widx = (width - 1) * 3 + variant + 1; variant 0 one
# constant value at the largest length the writer accepts, 1 pseudo-random values at the largest accepted length, 2 1000 groups).
# MsgIds 1..6: short game messages; 100000 + n: a broadcast of n bytes (120000: 20 000 bytes = 5 000 groups of 5 packed bytes; 140000: 40 000 bytes).
# Modes (long recordings): 10 * mode + src -- mode 0 dedicated write_* functions, 1 write_chunk, 2 alternating; src 0 bytes in one piece, 1 one byte per
# read / write call, 2 half, 3 all but the last byte, 4 BufReader / BufWriter(16), 5 pseudo-random counts, 6 BufReader / BufWriter(1).
# HiGaps are indices into MC_DemoHi!Gap (1: 0, 2: 1, 3: 125, 4: 250, 5: 251, 6: -3, 7: 2147483000).

LO = {
    "quick": dict(MaxChunks=3, Headers=[1, 2, 3, 4], StartTicks=[1, 2], Gaps=[1, 31, 32, 250, 251],
                  sizes=[29, 30, 255, 256], msg=[(0, 0), (29, 1), (30, 2), (255, 3), (256, 0), (30, 0), (29, 3), (256, 1)],
                  wide=[1, 4, 7, 10, 13, 14], Modes=[0, 11, 23, 4, 15], ModeChunks=2),
    "thorough": dict(MaxChunks=4, Headers=[1, 2, 3, 4], StartTicks=[1, 3, 4, 5], Gaps=[1, 31, 32, 250, 251],
                     sizes=[29, 30, 255, 256, 65535],
                     msg=[(0, 0), (29, 0), (29, 3), (30, 1), (30, 2), (255, 2), (255, 3), (256, 0), (256, 1), (65535, 1)],
                     wide=list(range(1, 16)), Modes=[0, 11, 12, 23, 4, 25, 6], ModeChunks=3),
}
HI = {
    "quick": dict(MaxCalls=4, HiGaps=[1, 2, 3, 5], WorldIds=[1, 2, 5, 6, 8], MsgIds=[1, 3, 120000]),
    "thorough": dict(MaxCalls=4, HiGaps=[1, 2, 3, 4, 5, 6, 7], WorldIds=[1, 2, 5, 6, 7, 8], MsgIds=[1, 2, 3, 140000]),
}
LO_INV = "INVARIANTS RoundTrip HeaderSame TickSync MarkerRule SizeRule\nPROPERTIES StepRoundTrip HeaderStep\n"
HI_INV = "VIEW View\nINVARIANTS SameObjects ReaderInSync TicksIncrease NonNegative DeltaNearKeyframe\nPROPERTIES RefusedInert StepSame\n"


def _set(xs):
    return "{" + ", ".join(str(x) for x in xs) + "}"


def _norm(key):
    return key.replace(core.repo_root() + "/", "")


def _classes(ctx, bins, tier):
    """Ask the harness which compressed sizes it can realise (searches concrete payloads)."""
    want = sorted(set(LO[tier]["sizes"]) | set(s for s, _ in LO[tier]["msg"] if s))
    rc, out = core.run_harness([os.path.join(bins, "vh-demo"), "classes"] + [str(s) for s in want], timeout=300)
    if rc != 0:
        raise core.ToolError("vh-demo classes failed (%s)" % rc)
    d = json.loads(out.strip().splitlines()[-1])
    snap = sorted(set([d["empty_snap"]] + [s for s in LO[tier]["sizes"] if s in d["snap"]]))
    msg = []
    for s, m in LO[tier]["msg"]:
        s = s or d["empty_msg"]
        if s * 4 + m in d["msg"]:
            msg.append(s * 4 + m)
    missing = [s for s in LO[tier]["sizes"] if s not in d["snap"]]
    if missing:
        ctx.note("payload sizes not realisable: %s" % missing)
    wide = [16 * (4 * w["csize"] + w["m4"]) + w["widx"] for w in d.get("wide", []) if w["widx"] in LO[tier]["wide"] and w["groups"] > 0]
    if len(wide) != len(LO[tier]["wide"]):
        raise core.ToolError("message width classes not realisable: %s" % d.get("wide"))
    ctx.coverage["payload_classes"] = {"snapshot_sizes": snap, "message_codes(4*size+len%4)": sorted(set(msg)),
                                       "message_width_classes": [w for w in d.get("wide", []) if w["widx"] in LO[tier]["wide"]],
                                       "empty_payload_compressed_size": d["empty_snap"],
                                       "achieved": d["achieved"][:60]}
    return snap, sorted(set(msg)), sorted(wide)


def _write_cfgs(ctx, tier, snap, msg, wide):
    lo, hi = LO[tier], HI[tier]
    lo_c = ("SPECIFICATION Spec\nCONSTANTS\n  MaxChunks = %d\n  Headers = %s\n  StartTicks = %s\n  Gaps = %s\n"
            "  SnapSizes = %s\n  MsgCodes = %s\n  WideCodes = %s\n  Modes = %s\n  ModeChunks = %d\nCHECK_DEADLOCK FALSE\n" % (
                lo["MaxChunks"], _set(lo["Headers"]), _set(lo["StartTicks"]), _set(lo["Gaps"]), _set(snap), _set(msg), _set(wide),
                _set(lo["Modes"]), lo["ModeChunks"]))
    hi_c = ("SPECIFICATION Spec\nCONSTANTS\n  MaxCalls = %d\n  HiGaps = %s\n  WorldIds = %s\n  MsgIds = %s\nCHECK_DEADLOCK FALSE\n" % (
        hi["MaxCalls"], _set(hi["HiGaps"]), _set(hi["WorldIds"]), _set(hi["MsgIds"])))
    paths = {}
    for name, text in (("MC_lo", lo_c + LO_INV), ("Exp_lo", lo_c + "VIEW View\nACTION_CONSTRAINT Export\n"),
                       ("MC_hi", hi_c + HI_INV), ("Exp_hi", hi_c + "VIEW View\nACTION_CONSTRAINT Export\n")):
        p = os.path.join(ctx.workdir, name + ".cfg")
        open(p, "w").write(text)
        paths[name] = p
    return paths


# ---------------------------------------------------------------- trace judgement

TRACE = {"lo": ("DemoTrace.tla", "DemoTrace.cfg"), "hi": ("DemoHiTrace.tla", "DemoHiTrace.cfg")}


def _judge_trace(ctx, level, trace_path, label):
    ok, res = core.validate_trace(TRACE[level][0], TRACE[level][1], trace_path, cwd=SPECDIR, timeout=900)
    nd = len(re.findall(r"TRACE DRIFT at event", res.out))
    if nd and ok:
        ctx.report_drift("%s: %d logged steps differ from the detailed specification only in the encoding chosen "
                         "(header bytes / key-frame placement); the documented reader still returns what was written" % (label, nd))
    if ok:
        return True, None, res
    m = re.search(r"TRACE REJECTED at event\D+(\d+)", res.out)
    if m:
        return False, int(m.group(1)), res
    if res.violated:
        dm = re.findall(r"^State (\d+):", res.out, re.M)
        return False, (int(dm[-1]) - 1 if dm else None), res
    raise core.ToolError("trace validation of %s failed without a verdict: %s" % (label, (res.error or res.out[-800:])))


def _run_of_event(events, idx):
    idx = max(1, min(idx, len(events)))
    start = idx - 1
    while start > 0 and events[start]["act"].get("a") != "new":
        start -= 1
    return [e["act"] for e in events[start:idx]]


def _key_of_event(level, ev):
    a = ev.get("act", {})
    o = ev.get("out", {})
    if o.get("r") == "panic":
        return _norm("%s:trace:panic:%s:at=%s" % (level, a.get("a"), o.get("loc", "")))
    return "%s:trace:deviates:%s:r=%s" % (level, a.get("a"), o.get("r"))


# ---------------------------------------------------------------- direction A

def _walk(ctx, bins, level, cfg, depth, module, threads, timeout):
    """TLC export piped into the path walker (runs in a worker thread: no ctx mutation here)."""
    cmd = [os.path.join(bins, "vh-demo"), "graph", level, "--depth", str(depth), "--threads", str(threads)]
    t0 = time.time()
    tres, rc, out = core.tlc_pipe(module, cfg, cmd, cwd=SPECDIR, timeout=timeout)
    if rc != 0:
        if rc in CRASH_SIGNALS:
            return {"crash": rc}
        raise core.ToolError("vh-demo graph %s exited with %s: %s" % (level, rc, out[-500:]))
    try:
        s = json.loads(out.strip().splitlines()[-1])
    except Exception:
        raise core.ToolError("vh-demo graph %s: no summary: %s" % (level, out[-500:]))
    tail = "\n".join(s.get("tlc_tail", []))
    if "error" in s or not s.get("paths") or "Model checking completed" not in tail:
        raise core.ToolError("graph export (%s) unusable: %s %s" % (level, s.get("error"), tail[-600:]))
    s["wall_s"] = round(time.time() - t0, 1)
    return s


def _report_walk(ctx, bins, level, s):
    if "crash" in s:
        ctx.report("crash:graph:%s" % level, "the replay process died with code %s while executing TLC-generated "
                   "recordings (%s level)" % (s["crash"], level), {"level": level, "rc": s["crash"]})
        return
    ctx.add_run("graph walk %s" % level, states=s["states"], edges=s["edges"], paths=s["paths"], steps=s["steps"],
                mismatches=s["mismatch_count"], drift=s.get("drift_count", 0), edges_covered=s["edges_covered"], wall_s=s["wall_s"])
    ctx.coverage["evaluations"] += s["paths"]
    ctx.coverage["distinct_nontrivial"] += s["nontrivial_paths"]
    ctx.coverage["transitions_replayed_on_impl"] = ctx.coverage.get("transitions_replayed_on_impl", 0) + s["steps"]
    for smp in s.get("samples", [])[:1]:
        ctx.sample(smp)
    for m in s.get("mismatches", []):
        n = s["mismatch_keys"].get(m["key"], 1)
        ctx.report(_norm(m["key"]),
                   "%s level, step %d (%s) of a TLC-generated recording: specification expects %s, the code did %s "
                   "(%d recordings fail this way)" % (level, m["step"], json.dumps(m["act"])[:300], json.dumps(m["expected"])[:400],
                                                      json.dumps(m["observed"])[:400], n),
                   {"level": level, "plan": m["plan"], "step": m["step"], "expected": m["expected"], "observed": m["observed"]})
    # differences in the detailed fields only: TLC decides (property level) on one example per class
    for j, ex in enumerate(s.get("drift_examples", [])):
        rc2, out2 = core.run_harness([os.path.join(bins, "vh-demo"), "run", level], stdin=json.dumps(ex["plan"]) + "\n", timeout=300)
        tp = os.path.join(ctx.workdir, "drift_%s_%d.ndjson" % (level, j))
        open(tp, "w").write(out2)
        ok, idx, r2 = _judge_trace(ctx, level, tp, "direction A %s, %d recordings (%s)" % (level, s["drift_keys"].get(ex["key"], 1), ex["key"]))
        if not ok:
            ctx.report(_norm("%s:encoding-not-readable:%s" % (level, ex["key"])),
                       "%s level: the code's encoding differs from the specification and the documented reader does not read it "
                       "back to what was written: expected %s, observed %s" % (level, json.dumps(ex["expected"])[:400], json.dumps(ex["observed"])[:400]),
                       {"level": level, "plan": ex["plan"], "step": ex["step"]})
    core.log("[C15] direction A %s: paths=%d steps=%d mismatches=%d drift=%d in %.0fs" % (
        level, s["paths"], s["steps"], s["mismatch_count"], s.get("drift_count", 0), s["wall_s"]))



# ---------------------------------------------------------------- file level (DemoFile.tla)

FILE_CFG = {"quick": "MCF_quick.cfg", "thorough": "MCF_thorough.cfg"}
_RE_VERDICT = re.compile(r'<<"VERDICT", (\d+), "(\w+)", "([^"]*)">>')


def _judge_files(ctx, trace_path, label):
    """DemoFileTrace judges every event; returns [(event index (1-based), class, what)]."""
    ok, res = core.validate_trace("DemoFileTrace.tla", "DemoFileTrace.cfg", trace_path, cwd=SPECDIR, timeout=1800, heap="4g")
    if not ok:
        raise core.ToolError("file-level judge failed on %s: %s" % (label, (res.error or res.out[-800:])))
    return [(int(a), b, c) for a, b, c in _RE_VERDICT.findall(res.out)], res


def _file_key(ev, what):
    a = ev.get("act", {})
    i = a.get("id", {})
    o = ev.get("out", {})
    if o.get("r") in ("panic", "hang"):
        return _norm("file:%s:%s:at=%s" % (o.get("r"), a.get("a"), o.get("loc", o.get("at", ""))))
    if o.get("typed") in ("panic", "hang"):
        return _norm("file:typed-%s:at=%s" % (o.get("typed"), o.get("typed_loc", "")))
    return "file:%s:%s:v%s:src%s:%s" % (a.get("a"), what.replace(" ", "-"), i.get("v", "?"),
                                         (a.get("src") or {}).get("pol", a.get("src")) if isinstance(a.get("src"), dict) else a.get("src"),
                                         (i.get("mut") or {}).get("m", "none"))


def _report_file_verdicts(ctx, events, verdicts, label):
    seen = {}
    ndrift = 0
    for idx, cls, what in verdicts:
        ev = events[idx - 1] if 0 < idx <= len(events) else {}
        if cls == "drift":
            ndrift += 1
            continue
        key = _file_key(ev, what)
        seen[key] = seen.get(key, 0) + 1
        if seen[key] == 1:
            a = ev.get("act", {})
            ctx.report(key, "%s: %s -- %s: case %s; the code returned %s" % (
                label, what, a.get("a"), json.dumps(a.get("id", {}))[:300], json.dumps(ev.get("out", {}))[:600]),
                {"level": "file", "act": a})
    if ndrift:
        ctx.report_drift("%s: %d events deviate from DemoFile.tla outside what C15 states (legacy versions, malformed parts, error classes)" % (label, ndrift))
    return seen, ndrift


def _files(ctx, bins, tier):
    """Direction A at the file level: TLC enumerates recordings of all versions x mutations x byte sources, checks the
    laws of the format on each and exports the bytes; the real Reader / DemoReader / Writer run on them; DemoFileTrace judges."""
    trace = os.path.join(ctx.workdir, "files.ndjson")
    t0 = time.time()
    tres, rc, out = core.tlc_pipe("MC_DemoFile.tla", FILE_CFG[tier], [os.path.join(bins, "vh-demo"), "files", "--out", trace],
                                  cwd=SPECDIR, timeout=900 if tier == "quick" else 2400)
    if rc == 97:
        m = re.search(r"^HANG (.*)$", out, re.M)
        ctx.report("file:hang", "a call into the reader / writer did not return on a TLC-generated file: %s" % (m.group(1)[:500] if m else "?"),
                   {"level": "file-case", "case": m.group(1) if m else ""})
        return
    if rc != 0:
        if rc in CRASH_SIGNALS:
            ctx.report("crash:files", "the process reading TLC-generated files died with code %s" % rc, {"level": "file", "rc": rc})
            return
        raise core.ToolError("vh-demo files exited with %s: %s" % (rc, out[-500:]))
    s = json.loads(out.strip().splitlines()[-1])
    tail = "\n".join(s.get("tlc_tail", []))
    r0 = core.TlcResult()
    r0.rc = 0
    core.parse_tlc(tail, r0)
    r0.wall_s = time.time() - t0
    if r0.violated:
        ctx.report("spec:file:%s" % r0.violated, "MC_DemoFile violates its law %s (design error)" % r0.violated, {"tlc": tail[-3000:]})
        return
    if "Model checking completed. No error has been found" not in tail or not s.get("cases"):
        raise core.ToolError("file-level export unusable: %s" % tail[-800:])
    ctx.add_states(r0, "MC_DemoFile: ValidReadsBack PrefixLaw TruncLaw HeaderTruncLaw Total (one state per case)")
    events = core.read_ndjson(trace)
    verdicts, res = _judge_files(ctx, trace, "file level")
    ctx.coverage["traces_validated_against_impl"] += 1
    ctx.coverage["evaluations"] += len(events)
    ctx.coverage["distinct_nontrivial"] += s["cases"]
    seen, ndrift = _report_file_verdicts(ctx, events, verdicts, "file level (direction A)")
    ctx.add_run("file level: TLC-generated files on the real Reader / DemoReader / Writer, judged by DemoFileTrace", cases=s["cases"],
                writer_runs=s["writes"], events=len(events), violations=sum(seen.values()), drift=ndrift,
                outcome_classes=s.get("classes"), wall_s=round(time.time() - t0, 1))
    if events:
        e = events[len(events) // 2]
        ctx.sample({"file_case": e["act"].get("id"), "out": {k: v for k, v in e["out"].items() if k != "items"}})
    core.log("[C15] file level: cases=%d writes=%d violations=%d drift=%d in %.0fs" % (s["cases"], s["writes"], sum(seen.values()), ndrift, time.time() - t0))

# ---------------------------------------------------------------- direction B

def _drive(bins, level, seed, runs, n, path):
    rc, out = core.run_harness([os.path.join(bins, "vh-demo"), "drive", level, str(seed), str(runs), str(n)], timeout=600)
    if rc != 0:
        return rc, []
    open(path, "w").write(out)
    return 0, [json.loads(l) for l in out.splitlines() if l.strip()]


def _direction_b(ctx, bins, tier):
    plans = [("lo", 6, 60), ("hi", 4, 150)] if tier == "quick" else \
            [("lo", 30, 80), ("lo", 4, 600), ("hi", 12, 200), ("hi", 3, 500), ("hi", 40, 25)]
    for i, (level, runs, n) in enumerate(plans):
        path = os.path.join(ctx.workdir, "trace_%s_%d.ndjson" % (level, i))
        seed = ctx.seed * 100 + i
        rc, events = _drive(bins, level, seed, runs, n, path)
        if rc != 0:
            if rc in CRASH_SIGNALS:
                ctx.report("crash:drive:%s" % level, "the random driver died with code %s" % rc, {"drive": [level, seed, runs, n]})
                continue
            raise core.ToolError("vh-demo drive exited with %s" % rc)
        label = "%s trace %d (seed %d, %d recordings of %d calls)" % (level, i, seed, runs, n)
        ok, idx, res = _judge_trace(ctx, level, path, label)
        ctx.coverage["traces_validated_against_impl"] += 1
        ctx.coverage["evaluations"] += len(events)
        ctx.add_run("trace validation " + label, events=len(events), accepted=ok, wall_s=round(res.wall_s, 1))
        if i < 2 and events:
            ctx.sample({"trace_head_" + level: events[1:4]})
        if not ok:
            ev = events[idx - 1] if idx and idx <= len(events) else {}
            ctx.report(_key_of_event(level, ev),
                       "%s: event %s is not a step of the specification%s: %s" % (
                           label, idx, (" (violates %s)" % res.violated) if res.violated else "", json.dumps(ev)[:700]),
                       {"level": level, "plan": _run_of_event(events, idx or len(events))})


def _binding_selftest(ctx, bins):
    for level, field in (("lo", "h"), ("hi", "read")):
        path = os.path.join(ctx.workdir, "selftest_%s.ndjson" % level)
        rc, events = _drive(bins, level, 777, 3, 60, path)
        if rc != 0 or len(events) < 20:
            raise core.ToolError("binding self-test: no %s trace" % level)
        ok, _, _ = _judge_trace(ctx, level, path, "self-test")
        if not ok:
            continue   # the tree under test deviates; reported by the main runs
        bad = [json.loads(json.dumps(e)) for e in events]
        k = next(i for i, e in enumerate(bad) if i > 4 and e["out"].get(field))
        if level == "lo":
            bad[k]["out"]["h"][0] ^= 1
        else:
            bad[k]["out"]["read"] = bad[k]["out"]["read"][:-1]
        p1 = os.path.join(ctx.workdir, "selftest_%s_corrupt.ndjson" % level)
        open(p1, "w").write("\n".join(json.dumps(e) for e in bad) + "\n")
        ok1, idx1, _ = _judge_trace(ctx, level, p1, "self-test corrupt")
        # drop an event whose absence the specification must notice: (lo) a tick whose successor tick marker is an
        # inline delta; (hi) an accepted snap that makes a later, otherwise acceptable, tick a refused one
        k2 = None
        if level == "lo":
            ticks = [i for i, e in enumerate(events) if e["act"]["a"] == "tick"]
            for a, b in zip(ticks, ticks[1:]):
                if a > 1 and len(events[b]["out"].get("h", [])) == 1 and not any(x["act"]["a"] == "new" for x in events[a:b]):
                    k2 = a
                    break
        else:
            last_ok = None
            prev_ok = None
            for i, e in enumerate(events):
                a = e["act"]
                if a["a"] == "new":
                    last_ok = prev_ok = None
                elif a["a"] == "snap" and e["out"]["r"] == "ok":
                    prev_ok, last_ok = last_ok, i
                elif a["a"] == "snap" and e["out"]["r"] == "refused" and last_ok is not None and prev_ok is not None \
                        and a["t"] > events[prev_ok]["act"]["t"]:
                    k2 = last_ok
                    break
        if k2 is None:
            raise core.ToolError("binding self-test (%s): no suitable event to drop" % level)
        p2 = os.path.join(ctx.workdir, "selftest_%s_drop.ndjson" % level)
        open(p2, "w").write("\n".join(json.dumps(e) for i, e in enumerate(events) if i != k2) + "\n")
        ok2, idx2, _ = _judge_trace(ctx, level, p2, "self-test drop")
        ctx.add_run("binding self-test " + level, corrupted_event=k + 1, corrupted_rejected_at=idx1,
                    dropped_event=k2 + 1, dropped_rejected_at=idx2)
        if ok1 or ok2:
            raise core.ToolError("binding self-test (%s) failed: corrupted accepted=%s, shortened accepted=%s" % (level, ok1, ok2))


# ---------------------------------------------------------------- entry points

def run(ctx):
    tier = ctx.tier
    bins = core.build_harness(["vh-demo"])
    ctx.coverage["rule"] = (
        "direction A: every path through the TLC-generated graphs of MC_Demo (header variants; <= MaxChunks chunks over "
        "tick gaps on both sides of 31, key-frame flags, compressed payload sizes on both sides of 29/30 and 255/256 and the "
        "maximum, empty payloads, message lengths mod 4, messages by varint width 1..5 of their 4-byte groups at the largest "
        "length the writer accepts) and MC_DemoHi (<= MaxCalls write_snap / write_msg calls over tick gaps "
        "on both sides of 250, refused ticks, worlds whose objects appear / change / vanish), each path executed once on "
        "the real writer and read back with the real readers; distinct by construction; counted non-trivial when it has at "
        "least two calls after the header; evaluations additionally counts the events of the recorded random traces")
    snap, msg, wide = _classes(ctx, bins, tier)
    cfgs = _write_cfgs(ctx, tier, snap, msg, wide)
    # 1. model checking
    for name, module, label in (("MC_lo", "MC_Demo.tla", "MC_Demo: RoundTrip HeaderSame TickSync MarkerRule SizeRule StepRoundTrip HeaderStep"),
                                ("MC_hi", "MC_DemoHi.tla", "MC_DemoHi: SameObjects ReaderInSync TicksIncrease NonNegative DeltaNearKeyframe RefusedInert StepSame")):
        res = core.run_tlc(module, cfgs[name], cwd=SPECDIR, workers=4, timeout=600 if tier == "quick" else 1800, coverage=True)
        ctx.add_states(res, label)
        if not res.ok:
            if res.violated:
                ctx.report("spec:%s" % res.violated, "%s violates %s (design error)" % (module, res.violated), {"tlc": res.out[-3000:]})
                return
            raise core.ToolError("TLC failed on %s: %s" % (module, res.error or res.out[-500:]))
        zero = [a for a in res.zero_actions if a.startswith("N")]
        if zero:
            raise core.ToolError("vacuous model-checking config %s: actions never taken: %s" % (name, zero))
    ctx.coverage["exhaustive"] = True
    # 2. direction A (both levels concurrently)
    res = {}

    def work(level):
        try:
            if level == "lo":
                res[level] = _walk(ctx, bins, "lo", cfgs["Exp_lo"], LO[tier]["MaxChunks"], "MC_Demo.tla", 3,
                                   300 if tier == "quick" else 2400)
            else:
                res[level] = _walk(ctx, bins, "hi", cfgs["Exp_hi"], HI[tier]["MaxCalls"], "MC_DemoHi.tla", 3,
                                   300 if tier == "quick" else 2400)
        except Exception as e:  # noqa
            res[level] = e

    ths = [threading.Thread(target=work, args=(l,)) for l in ("lo", "hi")]
    for t in ths:
        t.start()
    # 2b. the file level (TLC-generated files of all versions, mutations, byte sources), while the walks run
    _files(ctx, bins, tier)
    for t in ths:
        t.join()
    for l in ("lo", "hi"):
        if isinstance(res.get(l), Exception):
            raise res[l]
    for l in ("lo", "hi"):
        _report_walk(ctx, bins, l, res[l])
    # 3. direction B
    _direction_b(ctx, bins, tier)
    if tier == "thorough":
        _binding_selftest(ctx, bins)
    ctx.assumptions += [
        "payload compression (Huffman, variable-length integers) is opaque here (C07/C08): a payload is identified by the bytes "
        "the harness generated; the expected compressed bytes in the file are computed with the library's own compressor",
        "low-level Writer: ticks handed to write_tick strictly increase (it asserts so), header strings contain no NUL and are "
        "shorter than their field, compressed payloads fit 65535 bytes, header `length` is non-negative",
        "typed level: one world per tick with unique (type, id) keys; DDNet protocol objects Pickup, Flag, GameData, "
        "DdnetPlayer, MyOwnObject and game messages SvChat, SvKillMsg, SvBroadcast, SvMotd; snapshots fit the 64 KiB buffers",
    ]


def replay(ctx, path):
    obj = json.load(open(path))
    ctx._nrep = 9000  # do not overwrite the replay files of the run that produced `path`
    rp = obj.get("replay", {})
    plan, level = rp.get("plan"), rp.get("level")
    if level == "file":
        bins = core.build_harness(["vh-demo"])
        rc, out = core.run_harness([os.path.join(bins, "vh-demo"), "refile"], stdin=json.dumps(rp["act"]) + "\n", timeout=600)
        if rc != 0:
            if rc in CRASH_SIGNALS or rc == 97:
                ctx.report(obj.get("key", "file:crash"), "replay process ended with code %s" % rc, rp)
                return
            raise core.ToolError("vh-demo refile exited with %s" % rc)
        tp = os.path.join(ctx.workdir, "replay.ndjson")
        open(tp, "w").write(out)
        events = core.read_ndjson(tp)
        print(json.dumps(events[0])[:2000])
        verdicts, res = _judge_files(ctx, tp, "replay")
        ctx.add_states(res, "replay: file-level judge")
        ctx.coverage["traces_validated_against_impl"] += 1
        ctx.coverage["evaluations"] += len(events)
        ctx.coverage["distinct_nontrivial"] = 2
        ctx.sample({"act": {k: v for k, v in rp["act"].items() if k != "bytes"}})
        seen, nd = _report_file_verdicts(ctx, events, verdicts, "replay")
        if not seen:
            print("replay: accepted by the specification%s" % (" (drift)" if nd else ""))
        return
    if not plan or level not in ("lo", "hi"):
        raise core.ToolError("replay file has no plan / level")
    bins = core.build_harness(["vh-demo"])
    rc, out = core.run_harness([os.path.join(bins, "vh-demo"), "run", level], stdin=json.dumps(plan) + "\n", timeout=300)
    if rc != 0:
        if rc in CRASH_SIGNALS:
            ctx.report(obj.get("key", "crash:replay"), "replay process died with code %s" % rc, rp)
            return
        raise core.ToolError("vh-demo run exited with %s" % rc)
    tp = os.path.join(ctx.workdir, "replay.ndjson")
    open(tp, "w").write(out)
    events = [json.loads(l) for l in out.splitlines() if l.strip()]
    for e in events:
        print(json.dumps(e)[:1500])
    ok, idx, res = _judge_trace(ctx, level, tp, "replay")
    ctx.add_states(res, "replay trace validation")
    ctx.coverage["traces_validated_against_impl"] += 1
    ctx.coverage["evaluations"] += len(events)
    ctx.coverage["distinct_nontrivial"] = max(2, len(events))
    ctx.sample({"plan": plan})
    if not ok:
        ev = events[idx - 1] if idx and idx <= len(events) else {}
        ctx.report(obj.get("key", _key_of_event(level, ev)),
                   "replayed recording is still rejected by the specification at event %s: %s" % (idx, json.dumps(ev)[:700]), rp)
    else:
        print("replay: recording accepted by the specification (%d events)" % len(events))
