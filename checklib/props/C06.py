"""C06 -- the packet reader is total and stays inside its buffers (0.6/DDNet and 0.7).

Spec: spec/wire/Wire.tla, Wire7.tla (ReadWith is a total operator: value or error for every byte
string and hint), MC_Wire.tla (short strings over a reduced alphabet, corruptions of valid packets),
WireTrace.tla.  Violation: panic, hang, a returned slice outside the input / scratch buffer, a write
outside the scratch buffer, an accepted value that does not survive write -> read.  Another error
kind / warning set for malformed input = drift."""
from checklib import wire

LEVEL = "model_checking"


def run(ctx):
    wire.run_property(ctx, "C06")


def replay(ctx, path):
    wire.replay(ctx, "C06", path)
