"""C20 — the multi-peer endpoint keeps peers isolated (spec/conn/Net.tla, NetExp.tla, NetIso.tla)."""
import json
import os
import time

from checklib import core, conn

LEVEL = "model_checking"
SPECDIR = conn.SPECDIR


def cfg_text(c, export=False):
    def s(x):
        if isinstance(x, bool):
            return "TRUE" if x else "FALSE"
        if isinstance(x, (set, frozenset)):
            return "{" + ", ".join(s(y) for y in sorted(x, key=str)) + "}"
        if isinstance(x, str):
            return '"%s"' % x
        return str(x)
    lines = ["SPECIFICATION NSpec", "CONSTANTS", "  V7 = FALSE", "  TokenMode = TRUE", "  SeqStart = 0"]
    for k in ("Addrs", "Accepting", "NSizes", "MaxCreated", "MaxFeeds", "MaxCalls", "MaxTicks", "MaxRewind"):
        lines.append("  %s = %s" % (k, s(c[k])))
    lines.append("VIEW NView")
    if export:
        lines.append("ACTION_CONSTRAINT Export")
    else:
        lines += ["INVARIANT DeadlineOk", "PROPERTIES FreshIds Creation Removal Isolation"]
    return "\n".join(lines) + "\n"


def N(**kw):
    c = dict(Addrs={"a", "b"}, Accepting=True, NSizes={1}, MaxCreated=2, MaxFeeds=2, MaxCalls=2, MaxTicks=1, MaxRewind=0)
    c.update(kw)
    return c


def write_cfg(ctx, name, c, export):
    d = os.path.join(ctx.workdir, "cfg")
    os.makedirs(d, exist_ok=True)
    p = os.path.join(d, ("Exp_" if export else "MC_") + name + ".cfg")
    open(p, "w").write(cfg_text(c, export))
    return p


def model_check(ctx, name, c, timeout):
    res = core.run_tlc("Net.tla", write_cfg(ctx, name, c, False), cwd=SPECDIR, workers=3, timeout=timeout, heap="8g")
    ctx.add_states(res, "Net model check " + name)
    return res


def judge(trace, timeout=600):
    ok, res = core.validate_trace("NetIso.tla", "NetIso.cfg", trace, cwd=SPECDIR, timeout=timeout)
    verdict = None
    for line in res.out.splitlines():
        if line.startswith('<<"VERDICT"'):
            s = line[line.index(',') + 1:].strip()
            verdict = json.loads(json.loads(s[:s.rindex('>>')].strip()))
    if verdict is None or not ok:
        raise core.ToolError("NetIso produced no verdict: " + res.out[-1500:])
    return verdict["runs"], verdict["bad"]


NETTRACE_CFG = """SPECIFICATION TraceSpec
CONSTANTS
  V7 = FALSE
  TokenMode = TRUE
  SeqStart = 0
  Addrs = {%(addrs)s}
  Accepting = %(accepting)s
  NSizes = {1}
  MaxCreated = 1000000
  MaxFeeds = 1000000
  MaxCalls = 1000000
  MaxTicks = 1000000
  MaxRewind = 0
VIEW TraceView
INVARIANT DeadlineOk
PROPERTIES FreshIds Creation Removal Isolation
POSTCONDITION TraceAccepted
CHECK_DEADLOCK FALSE
"""


def strict_trace(ctx, tr, accepting, addrs, tag, timeout=900):
    """Strict validation of a recorded Net trace against Net.tla (NetTrace): returns (accepted, TlcResult).
    C20's action properties and DeadlineOk are evaluated on the implementation's own execution."""
    cfgp = os.path.join(ctx.workdir, "NetTrace_%s.cfg" % tag)
    names = ", ".join('"%s"' % chr(ord("a") + i) for i in range(addrs))
    open(cfgp, "w").write(NETTRACE_CFG % {"addrs": names, "accepting": "TRUE" if accepting else "FALSE"})
    ok, res = core.validate_trace("NetTrace.tla", cfgp, tr, cwd=SPECDIR, timeout=timeout, heap="4g")
    return ok, res


def export_replay(ctx, bins, name, c, timeout):
    cand = os.path.join(ctx.workdir, "cand_%s.ndjson" % name)
    cmd = [os.path.join(bins, "vh-net"), "replay", "--accepting", "1" if c["Accepting"] else "0",
           "--addrs", str(len(c["Addrs"])), "--cand-out", cand, "--max-cand", "40"]
    t0 = time.time()
    res, rc, out = core.tlc_pipe("NetExp.tla", write_cfg(ctx, name, c, True), cmd, cwd=SPECDIR, timeout=timeout)
    if rc == 97:
        case = [l[5:] for l in out.splitlines() if l.startswith("HANG ")]
        ctx.report("hang:" + name, "C20: a call into the endpoint did not return", {"config": name, "schedule": case})
        return None
    if rc != 0:
        raise core.ToolError("vh-net replay failed rc=%s: %s" % (rc, out[-500:]))
    s = json.loads(out.strip().splitlines()[-1])
    tail = "\n".join(s.get("tlc_tail", []))
    if "states generated" not in tail:
        raise core.ToolError("TLC export did not complete for %s: %s" % (name, tail[-600:]))
    s.update(name=name, cfg=c, cand_file=cand, wall_s=time.time() - t0)
    core.log("[replay] net %s: %d transitions, %d states, mismatches=%s, %.0fs" % (name, s["transitions"], s["states"], s["mismatches"], s["wall_s"]))
    return s


def handle(ctx, s):
    ctx.coverage["transitions"] += s["transitions"]
    ctx.coverage["states"] += s["states"]
    ctx.coverage["evaluations"] += s["transitions"]
    ctx.coverage["distinct_nontrivial"] += s["states"]
    ctx.add_run("export+replay " + s["name"], transitions=s["transitions"], states=s["states"], mismatches=s["mismatches"],
                actions=s["actions"], wall_s=round(s["wall_s"], 1),
                constants={k: (sorted(v) if isinstance(v, (set, frozenset)) else v) for k, v in s["cfg"].items()})
    for x in s.get("samples", [])[:2]:
        ctx.sample({"config": s["name"], "schedule": x["schedule"], "result": x["result"]})
    cands = s.get("candidates", [])
    if not cands:
        return
    nruns, bad = judge(s["cand_file"])
    ctx.coverage["traces_validated_against_impl"] += nruns
    badruns = {b["run"]: b for b in bad}
    seen = {}
    for i, c in enumerate(cands, start=1):
        b = badruns.get(i)
        if b is None:
            ctx.report_drift("%s: Net deviates from the detailed spec (%s %s) but behaves like independent connections: %s"
                             % (s["name"], c["class"], c["field"], json.dumps(c["path"])[:300]))
            continue
        key = "%s|%s|%s" % (b["why"][:70], c["class"], c["path"][-1].get("a", "?"))
        seen[key] = seen.get(key, 0) + 1
        if seen[key] <= 2:
            ctx.report(key, b["why"], {"accepting": s["cfg"]["Accepting"], "addrs": len(s["cfg"]["Addrs"]), "path": c["path"],
                                       "expected": c["expected"], "got": c["got"]})


def drive(ctx, bins, accepting, addrs, seed, events):
    tr = os.path.join(ctx.workdir, "iso_%d_%d_%d.ndjson" % (1 if accepting else 0, addrs, seed))
    cmd = [os.path.join(bins, "vh-net"), "drive", "--accepting", "1" if accepting else "0", "--addrs", str(addrs),
           "--seed", str(seed), "--events", str(events), "--out", tr]
    rc, out = core.run_harness(cmd, timeout=600)
    lines = core.read_ndjson(tr) if os.path.exists(tr) else []
    acts = [l.get("act") for l in lines if "act" in l]
    rep = {"accepting": accepting, "addrs": addrs, "path": acts, "seed": seed}
    if rc == 97:
        ctx.report("hang:drive", "C20: a call into the endpoint did not return", rep)
        return None
    if rc != 0:
        raise core.ToolError("vh-net drive failed rc=%s" % rc)
    nruns, bad = judge(tr)
    ctx.coverage["traces_validated_against_impl"] += 1
    ctx.coverage["evaluations"] += len(lines)
    ctx.add_run("trace accepting=%s addrs=%d seed=%d" % (accepting, addrs, seed), events=len(lines), rejected=len(bad))
    ctx.sample({"trace": os.path.basename(tr), "first_events": acts[:5]}, limit=8)
    for b in bad:
        cut = max(1, b["line"] - 1)
        ctx.report("%s|drive" % b["why"][:70], b["why"], dict(rep, path=acts[:cut]))
    # strict: the same trace must be a behaviour of Net.tla, line by line
    ok, res = strict_trace(ctx, tr, accepting, addrs, "%d_%d_%d" % (1 if accepting else 0, addrs, seed))
    ctx.coverage["traces_validated_against_impl"] += 1
    ctx.coverage["states"] += res.distinct
    ctx.coverage["transitions"] += res.generated
    opaque = sum(1 for l in lines if l.get("a") == "feed" and not l.get("clean", True)) + \
        sum(1 for l in lines if l.get("a") == "tick" and "failaddr" in l.get("act", {}))
    ctx.add_run("strict trace (NetTrace) accepting=%s addrs=%d seed=%d" % (accepting, addrs, seed), events=len(lines),
                matched=max(0, res.distinct - 1), opaque_steps=opaque, accepted=ok, violated=res.violated)
    if res.violated:
        cut = max(1, res.distinct)
        ctx.report("trace-property:%s|drive" % res.violated,
                   "C20: %s violated on a recorded execution of the real endpoint (strict trace, line %d)" % (res.violated, res.distinct),
                   dict(rep, path=acts[:cut]))
    elif not ok and not bad:
        m = [l for l in res.out.splitlines() if "TRACE REJECTED" in l]
        ctx.report_drift("recorded trace accepting=%s seed=%d leaves the detailed spec Net.tla (%s) but agrees with independent "
                         "connections (NetIso accepts)" % (accepting, seed, (m[0] if m else res.error or "no successor")[:200]))
    return tr


def binding_demo(ctx, tr, accepting, addrs):
    """The strict trace spec really constrains: (1) one acknowledged sequence number altered in one recorded line =>
    rejected at that line; (2) an opaque step made to touch another address's peer => Isolation violated."""
    import copy
    lines = core.read_ndjson(tr)
    out = {}
    a = copy.deepcopy(lines)
    at = None
    for i, r in enumerate(a):
        if r.get("a") == "feed" and r.get("clean") and len(r["st"]["peers"]) >= 2 and i > 30:
            r["st"]["peers"][0]["x"]["ack"] = (r["st"]["peers"][0]["x"]["ack"] + 1) % 1024
            at = i + 1
            break
    if at:
        f = os.path.join(ctx.workdir, "binding1.ndjson")
        open(f, "w").write("\n".join(json.dumps(x) for x in a) + "\n")
        ok, res = strict_trace(ctx, f, accepting, addrs, "binding1")
        out["altered_ack_line"] = at
        out["altered_ack_rejected_at"] = None if ok else res.distinct
    b = copy.deepcopy(lines)
    at = None
    for i, r in enumerate(b):
        if r.get("a") == "feed" and not r.get("clean") and len(r["st"]["peers"]) >= 2 and i > 30:
            for p in r["st"]["peers"]:
                if p["addr"] != r["act"]["addr"]:
                    p["x"]["seq"] = (p["x"]["seq"] + 1) % 1024
                    at = i + 1
                    break
            if at:
                break
    if at:
        f = os.path.join(ctx.workdir, "binding2.ndjson")
        open(f, "w").write("\n".join(json.dumps(x) for x in b) + "\n")
        ok, res = strict_trace(ctx, f, accepting, addrs, "binding2")
        out["foreign_peer_touched_line"] = at
        out["foreign_peer_touched_verdict"] = res.violated
    ctx.add_run("binding demonstration (NetTrace)", **out)
    good = out.get("altered_ack_rejected_at") == out.get("altered_ack_line") and out.get("foreign_peer_touched_verdict") == "Isolation"
    if not good:
        raise core.ToolError("binding demonstration of NetTrace failed: %s" % out)


def run(ctx):
    bins = core.build_harness(["vh-conn"])
    q = ctx.tier == "quick"
    ctx.coverage["rule"] = ("TLC checks Net.tla (composition of per-peer Conn records; adversarial datagram alphabet per address); every "
                            "transition of the export configurations is replayed on a real Net<u8> with the complete projected state, "
                            "events, per-address datagrams and needs_tick compared; deviations and random 8-address interleavings are "
                            "judged by NetIso.tla against per-address shadow Connections (distinct = distinct spec states reached); the "
                            "recorded 8-address traces are also validated line by line against Net.tla itself (NetTrace.tla: complete "
                            "projected state per line; C20's action properties evaluated on the real execution; datagrams outside the "
                            "modelled alphabet are opaque steps on which only isolation/creation/removal are demanded)")
    ctx.assumptions += ["at most one live peer per address (drivers)", "callers only make calls the state permits",
                        "hook net::verif is faithful"]
    mc = [("server", N(MaxFeeds=3, MaxCalls=2, MaxRewind=1)), ("client", N(Accepting=False, MaxFeeds=3, MaxCalls=2))]
    ex = [("server", N(MaxFeeds=2, MaxCalls=2, MaxRewind=1)), ("client", N(Accepting=False, MaxFeeds=2, MaxCalls=2, MaxTicks=1))]
    dr = [(True, 8, 1, 600), (False, 4, 2, 400)]
    if not q:
        mc += [("server-L", N(MaxFeeds=3, MaxCalls=3, MaxRewind=1)), ("server-3addr", N(Addrs={"a", "b", "c"}, MaxCreated=3, MaxFeeds=3, MaxCalls=2))]
        ex += [("server-L", N(MaxFeeds=3, MaxCalls=2, MaxRewind=1)), ("client-L", N(Accepting=False, MaxFeeds=3, MaxCalls=3, MaxTicks=1)),
               ("server-3addr", N(Addrs={"a", "b", "c"}, MaxCreated=3, MaxFeeds=2, MaxCalls=2))]
        dr = [(True, 8, s, 2000) for s in (1, 2, 3, 4)] + [(False, 8, s, 2000) for s in (5, 6)]
    to = 400 if q else 2400
    for (n, c), res in zip(mc, conn.run_parallel([(model_check, (ctx, n, c, to)) for n, c in mc], 4)):
        if not res.ok:
            ctx.report("model:%s:%s" % (n, res.violated or "error"), "the specification itself violates %s" % res.violated,
                       {"config": n, "tlc": res.out[-3000:]})
    for s in conn.run_parallel([(export_replay, (ctx, bins, n, c, 600 if q else 3000)) for n, c in ex], 6):
        if s is not None:
            handle(ctx, s)
    trs = conn.run_parallel([(drive, (ctx, bins, a, n, ctx.seed * 100 + sd, ev)) for a, n, sd, ev in dr], 6)
    if not q and trs and trs[0] and not ctx.violations:
        binding_demo(ctx, trs[0], dr[0][0], dr[0][1])


def replay(ctx, path):
    rep = json.load(open(path))["replay"]
    bins = core.build_harness(["vh-conn"])
    f = os.path.join(ctx.workdir, "sched.json")
    json.dump({"path": rep["path"]}, open(f, "w"))
    cmd = [os.path.join(bins, "vh-net"), "observe", "--file", f, "--accepting", "1" if rep.get("accepting", True) else "0",
           "--addrs", str(rep.get("addrs", 2))]
    rc, out = core.run_harness(cmd, timeout=120)
    if rc == 97:
        ctx.report("hang:replay", "C20: a call into the endpoint did not return", rep)
        return
    tr = os.path.join(ctx.workdir, "obs.ndjson")
    open(tr, "w").write(out)
    nruns, bad = judge(tr)
    ctx.coverage["traces_validated_against_impl"] += nruns
    ctx.coverage["evaluations"] += len(rep["path"])
    ctx.coverage["distinct_nontrivial"] += 2
    ctx.sample({"schedule": rep["path"][:8]})
    for b in bad:
        ctx.report("replay|" + b["why"][:70], b["why"], rep)
