"""C14 — generated message and object codecs match the protocol descriptions.

Spec: spec/gamenet (VarInt: doc/int.md; GameNet: interpreter of the shipped JSON
descriptions - declared constraints, encoding, operational reading of arbitrary
bytes/words; GameNetMC: the law "reading an encoded value tuple succeeds exactly
when the declared constraints hold and returns the same message and values" on
every vector of the boundary sweep, and export of the vectors; GameNetTrace:
validation of recorded executions of the real crates).
Code: gamenet/{teeworlds-0.5,teeworlds-0.6,teeworlds-0.7,ddnet}, gamenet/common,
gamenet/snap, packer.

(A) per description one TLC run checks the law on every vector and pipes the vectors
    into vh-gamenet, which decodes each one through the generic entry points
    (msg::decode, Connless::decode, SnapObj::decode_obj), re-encodes it and compares
    with the expectation computed by the spec.
(B) vh-gamenet derives truncations of every vector, mutations and random inputs
    (seeded), executes them and records a trace; TLC validates it with GameNetTrace
    (property level: only ok/err, canonical inputs re-encode identically, declared
    constraints reject; detailed level: outcome/error class/warnings/re-encoding equal
    the spec's reading of every input -> DRIFT when different)."""
import concurrent.futures
import json
import os
import re
import shutil
import subprocess
import time

from checklib import core

LEVEL = "model_checking"
CWD = os.path.join(core.SPEC, "gamenet")

PROTOS = [("0.5", "teeworlds-0.5.json"), ("0.6", "teeworlds-0.6.json"),
          ("0.7", "teeworlds-0.7-trunk.json"), ("ddnet", "ddnet-19.6.json")]

# mismatch kinds of direction A that break the property / only the detailed spec
VIOLATION_KINDS = {"panic", "canon", "reject-accepted", "unknown-accepted", "encode-panic", "obj-size", "build-canon"}
DRIFT_KINDS = {"detail", "accept-rejected", "build-detail"}
FAMS = "main,pair,ienc,demo,build"


def desc_path(fname):
    return os.path.join(core.repo_root(), "gamenet", "generate", "spec", fname)


def java_env(ctx, proto, fname, full):
    tmp = os.path.join(ctx.workdir, "jtmp-" + proto)
    os.makedirs(tmp, exist_ok=True)
    return {"GAMENET_DESC": desc_path(fname), "GAMENET_FULL": "1" if full else "0", "GAMENET_FAMS": FAMS,
            "JAVA_TOOL_OPTIONS": "-Djava.io.tmpdir=" + tmp}


def export_and_replay(ctx, bins, proto, fname, full, timeout):
    """tlc GameNetMC (Exp cfg) | vh-gamenet replay. Returns (TlcResult, records, trace path)."""
    md = os.path.join(ctx.workdir, "md-exp-" + proto)
    trace = os.path.join(ctx.workdir, "trace-%s.ndjson" % proto)
    cmd = core.tlc_cmd("GameNetMC.tla", "Exp_GameNet.cfg", workers=1, metadir=md, java_opts=["-Xmx3g"])
    env = dict(os.environ)
    env.update(java_env(ctx, proto, fname, full))
    env["VERIF_SEED"] = str(ctx.seed)
    t0 = time.time()
    p1 = subprocess.Popen(cmd, cwd=CWD, env=env, stdout=subprocess.PIPE, stderr=subprocess.STDOUT)
    p2 = subprocess.Popen([os.path.join(bins, "vh-gamenet"), "replay", proto, "--trace", trace, "--tier", ctx.tier],
                          stdin=p1.stdout, stdout=subprocess.PIPE, text=True, env=env, cwd=core.VERIF)
    p1.stdout.close()
    try:
        out, _ = p2.communicate(timeout=timeout)
        p1.wait(timeout=60)
    except subprocess.TimeoutExpired:
        p1.kill()
        p2.kill()
        raise core.ToolError("export pipe timed out for %s" % proto)
    recs = []
    tlc_lines = []
    hang = None
    for line in out.splitlines():
        if line.startswith("HANG "):
            hang = line[5:]
            continue
        try:
            j = json.loads(line)
        except ValueError:
            continue
        if j.get("t") == "tlc":
            tlc_lines.append(j["line"])
        else:
            recs.append(j)
    res = core.TlcResult()
    res.rc = p1.returncode
    res.out = "\n".join(tlc_lines)
    res.wall_s = time.time() - t0
    core.parse_tlc(res.out, res)
    core.log("[tlc|vh-gamenet] %s: distinct=%d generated=%d %.1fs ok=%s rc2=%s" % (
        proto, res.distinct, res.generated, res.wall_s, res.ok, p2.returncode))
    return res, recs, trace, p2.returncode, hang


def run_trace_tlc(ctx, proto, fname, trace, cfg, timeout=900):
    env = java_env(ctx, proto, fname, False)
    env["TRACE"] = os.path.abspath(trace)
    res = core.run_tlc("GameNetTrace.tla", cfg, cwd=CWD, workers=1, timeout=timeout, env=env, heap="3g",
                       stack="1g", deque=True, metadir=os.path.join(ctx.workdir, "md-%s-%s-%d" % (cfg, proto, int(time.time() * 1000) % 100000)))
    return res


def parse_tlc_json_tuples(out, head):
    """PrintT(<<head, n, ToJson(..)>>) lines -> [(n, obj)]."""
    r = []
    pat = re.compile(r'^<<"%s", (\d+), "(.*)">>\s*$' % re.escape(head))
    for line in out.splitlines():
        m = pat.match(line.strip())
        if not m:
            continue
        try:
            r.append((int(m.group(1)), json.loads(m.group(2).replace('\\"', '"').replace("\\\\", "\\"))))
        except ValueError:
            r.append((int(m.group(1)), {"unparsed": m.group(2)[:300]}))
    return r


def name_of(vec):
    return "_".join(vec.get("name", ["?"]))


def judge_vectors(ctx, proto, recs):
    """Direction A: group the mismatches the harness found against the spec's expectation."""
    groups = {}
    for j in recs:
        if j.get("t") != "M":
            continue
        vec = j["vec"]
        k = (j["kind"], vec.get("sec") or vec["id"][0], name_of(vec))
        g = groups.setdefault(k, {"n": 0, "first": j})
        g["n"] += 1
    for (kind, sec, name), g in sorted(groups.items()):
        j = g["first"]
        vec = j["vec"]
        text = "%s %s %s (%s, vector %s '%s'): %s [%d vector(s) of this message]" % (
            proto, sec, name, kind, vec["id"], vec["tag"], j["text"][:400], g["n"])
        if kind in VIOLATION_KINDS:
            ctx.report("%s:%s:%s:%s" % (kind, proto, sec, name), text, {"proto": proto, "vec": vec, "got": j["got"]})
        else:
            ctx.report_drift(text)
    return groups


def event_key(proto, ev):
    if ev.get("k") == "benc":
        return "trace-rejected:%s:build:%s:%s" % (proto, ev.get("sec"), ev.get("mi"))
    what = "panic" if ev.get("r") == "panic" else ("encode-panic" if ev.get("enc") == "panic" else "rejected")
    return "trace-%s:%s:%s:%s" % (what, proto, ev.get("entry"), ev.get("tname") or ev.get("sec") or "-")


def judge_trace(ctx, proto, fname, trace, label):
    """Direction B: strict validation; when rejected, the lenient run lists every rejected event."""
    n_events = sum(1 for _ in open(trace))
    res = run_trace_tlc(ctx, proto, fname, trace, "Trace.cfg")
    ctx.coverage["traces_validated_against_impl"] += 1
    accepted = res.ok and "TRACE REJECTED" not in res.out
    drifts = parse_tlc_json_tuples(res.out, "DRIFT")
    rejected = []
    if not accepted:
        if res.error and "TRACE REJECTED" not in res.out and "Postcondition" not in (res.error or ""):
            raise core.ToolError("trace validation failed for %s: %s" % (proto, (res.error or "")[:600]))
        res2 = run_trace_tlc(ctx, proto, fname, trace, "Trace_all.cfg")
        rejected = parse_tlc_json_tuples(res2.out, "TRACE REJECTED event")
        drifts = parse_tlc_json_tuples(res2.out, "DRIFT")
        if not rejected:
            raise core.ToolError("trace of %s rejected but no event listed: %s" % (proto, res2.out[-800:]))
    ctx.add_run("trace validation %s %s" % (label, proto), events=n_events, accepted=accepted,
                rejected_events=len(rejected), detailed_mismatches=len(drifts), depth=res.depth,
                wall_s=round(res.wall_s, 1))
    seen = set()
    for n, ev in rejected:
        key = event_key(proto, ev)
        if key in seen:
            continue
        seen.add(key)
        cnt = len([1 for _, e in rejected if event_key(proto, e) == key])
        if ev.get("k") == "benc":
            ctx.report(key, "%s: GameNetTrace rejects event %d: encode of %s message/object %s built through the struct fields from %s gave %s %s %s [%d event(s) of this kind]"
                       % (proto, n, ev.get("sec"), ev.get("mi"), str(ev.get("vals"))[:300], ev.get("r"), str(ev.get("bytes"))[:200],
                          ev.get("msg"), cnt), {"proto": proto, "event": ev})
            continue
        ctx.report(key, "%s: GameNetTrace rejects event %d (%s input of %s %s): outcome r=%s e=%s w=%s enc=%s re=%s for data=%s [%d event(s) of this kind]"
                   % (proto, n, ev.get("src"), ev.get("entry"), ev.get("tname") or "", ev.get("r"), ev.get("e"), ev.get("w"),
                      ev.get("enc"), str(ev.get("re"))[:200], str(ev.get("data"))[:200], cnt),
                   {"proto": proto, "event": ev})
    if drifts:
        n, d = drifts[0]
        ctx.report_drift("%s: %d recorded event(s) differ from the detailed reading of the description only (first: event %d %s)"
                         % (proto, len(drifts), n, json.dumps(d)[:400]))
    return accepted, n_events, len(rejected), len(drifts)


def binding_selftest(ctx, proto, fname, trace):
    """Corrupt one logged field / forge an outcome / drop one event: TLC must reject each."""
    evs = core.read_ndjson(trace)
    canon = next((i for i, e in enumerate(evs) if e["k"] == "ev" and e["src"] == "vec" and e["r"] == "ok"
                  and e["enc"] == "ok" and e["re"] == e["data"] and not e["w"] and len(e["data"]) > 2), None)
    rej = next((i for i, e in enumerate(evs) if e["k"] == "ev" and e["src"] == "vec" and e["r"] == "err"
                and e["e"] in ("range", "cc", "intstr")), None)
    if canon is None or rej is None:
        ctx.note("binding self-test skipped for %s: no suitable events" % proto)
        return
    cases = {}
    c = json.loads(json.dumps(evs[:canon + 1]))
    c[canon]["re"][-1] = (c[canon]["re"][-1] + 1) % 256 if c[canon]["entry"] != "obj" else c[canon]["re"][-1] ^ 1
    cases["corrupted re-encoding"] = c
    c = json.loads(json.dumps(evs[:rej + 1]))
    c[rej]["r"] = "ok"
    cases["forged acceptance of a constraint violation"] = c
    c = json.loads(json.dumps(evs[:canon + 1]))
    c[canon]["r"] = "panic"
    cases["panic outcome"] = c
    k = max(canon, 3)
    c = json.loads(json.dumps(evs[:k + 1]))
    del c[1]
    cases["dropped event"] = c
    detected = {}
    for what, events in cases.items():
        path = os.path.join(ctx.workdir, "selftest-%s-%s.ndjson" % (proto, what.split()[0]))
        with open(path, "w") as fh:
            for e in events:
                fh.write(json.dumps(e) + "\n")
        res = run_trace_tlc(ctx, proto, fname, path, "Trace.cfg")
        detected[what] = (not res.ok) or "TRACE REJECTED" in res.out
    ctx.add_run("binding self-test %s" % proto, detected=detected)
    missed = [w for w, d in detected.items() if not d]
    if missed:
        raise core.ToolError("binding self-test: GameNetTrace accepted a manipulated trace (%s)" % ", ".join(missed))


GENERATED = [("teeworlds-0.5.json", "teeworlds-0.5", "libtw2-gamenet-teeworlds-0-5"),
             ("teeworlds-0.6.json", "teeworlds-0.6", "libtw2-gamenet-teeworlds-0-6"),
             ("teeworlds-0.7-trunk.json", "teeworlds-0.7", "libtw2-gamenet-teeworlds-0-7"),
             ("ddnet-19.6.json", "ddnet", "libtw2-gamenet-ddnet")]


def other_descriptions(ctx):
    """Thorough tier, design level: the model-level laws (Law, truncation law, uniquely readable layout, pair /
    integer-encoding / demo / build laws) on the shipped descriptions that have no generated crate."""
    sdir = os.path.join(core.repo_root(), "gamenet", "generate", "spec")
    have = {f for _, f in PROTOS}
    others = sorted(f for f in os.listdir(sdir) if f.endswith(".json") and f not in have)
    def one(f):
        env = java_env(ctx, "other-" + f, f, False)
        return f, core.run_tlc("GameNetMC.tla", "MC_GameNet.cfg", cwd=CWD, workers=2, timeout=1500, env=env, heap="3g")
    with concurrent.futures.ThreadPoolExecutor(max_workers=3) as ex:
        results = list(ex.map(one, others))
    summary = {}
    for f, res in results:
        ctx.add_states(res, "GameNetMC laws on a description without generated crate (%s)" % f)
        unc = re.search(r'<<"U", "(.*)">>', res.out)
        unc = json.loads(unc.group(1).replace('\\"', '"')) if unc else []
        summary[f] = {"vectors": res.distinct, "ok": res.ok, "uncovered": ["_".join(u["name"]) for u in unc]}
        if res.violated:
            ctx.report_drift("description %s (no generated crate): GameNetMC invariant %s is violated - the described layout is "
                             "not uniquely readable or breaks a model-level law: %s" % (f, res.violated, res.out[-500:]))
        elif not res.ok:
            ctx.note("description %s could not be interpreted: %s" % (f, (res.error or res.out[-300:])[:300]))
        if unc:
            ctx.note("description %s: %d message(s)/object(s) use a member kind the interpreter does not cover: %s"
                     % (f, len(unc), ", ".join(summary[f]["uncovered"][:10])))
    ctx.coverage["other_descriptions"] = summary


def generator_check(ctx):
    """Thorough tier: regenerate the four crates from the descriptions with the repository's generator into a
    scratch directory and compare with the committed generated sources. A stale generated file is a mismatch
    between description and codec: when the vectors behave differently on a tree with the regenerated sources
    it is a violation, otherwise drift."""
    root = core.repo_root()
    scratch = os.path.join(ctx.workdir, "regen")
    shutil.rmtree(scratch, ignore_errors=True)
    shutil.copytree(os.path.join(root, "gamenet", "generate"), os.path.join(scratch, "generate"),
                    ignore=shutil.ignore_patterns("__pycache__"))
    differing = []
    compared = 0
    for spec, outdir, name in GENERATED:
        r = subprocess.run(["python3", "generate/generate.py", "generate/spec/" + spec, outdir, name], cwd=scratch,
                           stdout=subprocess.PIPE, stderr=subprocess.STDOUT, text=True, timeout=600)
        if r.returncode != 0:
            raise core.ToolError("generator failed on %s: %s" % (spec, r.stdout[-800:]))
        for d, _, files in os.walk(os.path.join(scratch, outdir)):
            for f in files:
                new = os.path.join(d, f)
                rel = os.path.relpath(new, scratch)
                old = os.path.join(root, "gamenet", rel)
                compared += 1
                if not os.path.exists(old) or open(old, "rb").read() != open(new, "rb").read():
                    differing.append(rel)
    ctx.add_run("generator: regenerated sources compared with the committed ones", files_compared=compared,
                differing=differing)
    ctx.coverage["generated_files_compared"] = compared
    if not differing:
        return
    # behaviour on a tree with the regenerated sources
    alt = os.path.join(ctx.workdir, "regen-repo")
    shutil.rmtree(alt, ignore_errors=True)
    shutil.copytree(root, alt, ignore=shutil.ignore_patterns("target", ".git"), symlinks=True)
    for rel in differing:
        os.makedirs(os.path.dirname(os.path.join(alt, "gamenet", rel)), exist_ok=True)
        shutil.copy(os.path.join(scratch, rel), os.path.join(alt, "gamenet", rel))
    env = dict(os.environ, VERIF_REPO=alt, GAMENET_NO_REGEN="1", VERIF_SEED=str(ctx.seed))
    r = subprocess.run([os.path.join(core.VERIF, "check"), "C14", "--tier", "quick"], cwd=core.VERIF, env=env,
                       stdout=subprocess.PIPE, stderr=subprocess.STDOUT, text=True, timeout=3000)
    h = __import__("hashlib").sha1(alt.encode()).hexdigest()[:10]
    shutil.rmtree(os.path.join(core.WORK, "alt-" + h), ignore_errors=True)
    shutil.rmtree(alt, ignore_errors=True)
    text = "the committed generated sources differ from what gamenet/generate produces from the descriptions: %s" % ", ".join(differing[:12])
    if r.returncode == 0:
        # the regenerated tree passes: do the committed sources behave differently on some vector? (this run's own verdict tells)
        if ctx.violations:
            ctx.report("stale-generated:%s" % differing[0], text + "; the tree with the regenerated sources passes all vectors "
                       "while the committed sources do not", {"differing": differing})
        else:
            ctx.report_drift(text + "; no vector behaves differently")
    elif r.returncode == 1:
        ctx.report("generator:%s" % differing[0], text + "; with the regenerated sources the vectors are violated: "
                   + " | ".join(l for l in r.stdout.splitlines() if l.startswith("[violation]"))[:600], {"differing": differing})
    else:
        ctx.report_drift(text + "; the tree with the regenerated sources could not be checked (exit %s)" % r.returncode)


def one_proto(ctx, bins, proto, fname, full):
    return export_and_replay(ctx, bins, proto, fname, full, timeout=1500 if full else 600)


def run(ctx):
    bins = core.build_harness(["vh-gamenet"])
    full = ctx.tier == "thorough"
    results = {}
    with concurrent.futures.ThreadPoolExecutor(max_workers=4) as ex:
        futs = {p: ex.submit(one_proto, ctx, bins, p, f, full) for p, f in PROTOS}
        for p, fu in futs.items():
            results[p] = fu.result()
    totals = {"vectors": 0, "events_logged": 0, "events_bulk": 0, "built": 0}
    families = {}
    uncovered = []
    messages = {}
    kinds = {}
    traces = []
    for proto, fname in PROTOS:
        res, recs, trace, rc2, hang = results[proto]
        ctx.add_states(res, "GameNetMC law + export, %s (%s)" % (proto, fname))
        if hang is not None:
            ctx.report("hang:%s" % proto, "a decode/encode call of %s did not return: %s" % (proto, hang[:400]),
                       {"proto": proto, "case": hang})
            continue
        if rc2 != 0:
            raise core.ToolError("vh-gamenet exit %s for %s" % (rc2, proto))
        if res.violated:
            ctx.report("spec-law:%s" % proto,
                       "GameNetMC: invariant %s violated for %s - the description is not uniquely readable or the interpreter is inconsistent: %s"
                       % (res.violated, fname, res.out[-600:]), {"proto": proto, "tlc": res.out[-2000:]})
            continue
        if not res.ok:
            raise core.ToolError("TLC failed on %s: %s" % (fname, (res.error or res.out[-800:])))
        summ = next((j for j in recs if j.get("t") == "S"), None)
        if summ is None or summ["vectors"] != res.distinct:
            raise core.ToolError("%s: harness replayed %s vectors, TLC generated %d" % (
                proto, summ and summ["vectors"], res.distinct))
        for j in recs:
            if j.get("t") == "U":
                for u in j["v"]:
                    uncovered.append({"proto": proto, "section": u["sec"], "name": "_".join(u["name"])})
            elif j.get("t") == "N":
                messages[proto] = j["v"]
            elif j.get("t") == "K":
                kinds[proto] = j["v"]
        judge_vectors(ctx, proto, recs)
        seen_panics = set()
        for j in recs:
            if j.get("t") == "P":
                ev = j["ev"]
                key = "panic:%s:%s:%s" % (proto, ev.get("entry"), re.sub(r"^/.*?/(?=[a-z0-9.-]+/src/)", "", ev.get("panic", "").split(" at ")[-1])[:80])
                if key in seen_panics:
                    continue
                seen_panics.add(key)
                ctx.report(key, "%s: decoding %s input %s panicked: %s" % (proto, ev.get("src"), str(ev.get("data"))[:300], ev.get("panic")),
                           {"proto": proto, "event": ev})
        totals["vectors"] += summ["vectors"]
        totals["events_logged"] += summ["events_logged"]
        totals["events_bulk"] += summ["events_bulk"]
        ctx.add_run("replay %s" % proto, vectors=summ["vectors"], by_class=summ["by_class"],
                    mismatching_vectors=summ["mismatching_vectors"], derived_inputs_logged=summ["events_logged"],
                    derived_inputs_bulk=summ["events_bulk"], bulk_ok=summ["bulk_ok"], bulk_err=summ["bulk_err"],
                    bulk_panic=summ["bulk_panic"], by_family=summ.get("by_family"), built=summ.get("built"),
                    built_by_outcome=summ.get("built_by_outcome"))
        for fam_, n_ in (summ.get("by_family") or {}).items():
            families[fam_] = families.get(fam_, 0) + n_
        totals["built"] += summ.get("built", 0)
        for s in summ.get("samples", [])[:2]:
            s["proto"] = proto
            ctx.sample(s, limit=6)
        traces.append((proto, fname, trace))
    # direction B
    with concurrent.futures.ThreadPoolExecutor(max_workers=4) as ex:
        futs = [ex.submit(judge_trace, ctx, p, f, t, "sweep+truncations+mutations+random") for p, f, t in traces]
        tres = [fu.result() for fu in futs]
    if ctx.tier == "thorough" and traces:
        binding_selftest(ctx, *traces[0])
    if ctx.tier == "thorough" and not os.environ.get("GAMENET_NO_REGEN"):
        other_descriptions(ctx)
        generator_check(ctx)
    cov = ctx.coverage
    cov["evaluations"] = totals["vectors"] + totals["events_logged"] + totals["events_bulk"] + totals["built"]
    cov["vectors_per_family"] = families
    cov["values_built_and_encoded"] = totals["built"]
    cov["distinct_nontrivial"] = totals["vectors"]
    cov["rule"] = ("distinct vectors <<description, section, message/object, member, boundary value>> generated by TLC "
                   "from the shipped descriptions and replayed on the real crate (every message and object of the four "
                   "descriptions; family main: every member at each point of its sweep with the other members canonical, "
                   "arrays at every index; pair: adjacent and (first, last) members both at key points; ienc: non-canonical "
                   "integer encodings; demo: padding behind Unpacker::new_from_demo; build: values for encode that no decoder produces)")
    cov["exhaustive"] = not uncovered
    cov["messages"] = messages
    cov["vectors_per_member_kind"] = kinds
    cov["uncovered"] = uncovered
    cov["trace_events_validated"] = sum(t[1] for t in tres)
    cov["inputs_executed_without_individual_validation"] = totals["events_bulk"]
    if uncovered:
        ctx.note("%d message(s)/object(s) use a member kind the interpreter does not cover: %s" % (
            len(uncovered), ", ".join("%s/%s/%s" % (u["proto"], u["section"], u["name"]) for u in uncovered[:20])))
    ctx.assumptions += [
        "the description is read exactly as gamenet/generate/datatypes.py reads it (member kinds, min/max, enum values, disallow_cc, super, attributes); the generator is run in the thorough tier only (regenerated sources compared with the committed ones)",
        "an integer with non-zero padding bits is predicted the way libtw2's packer reads it (spec/gamenet/VarInt.tla vimpl = spec/varint of C08: the lowest padding bit lands on bit 31); doc/int.md's value (padding ignored) differs from it when that bit is set - such vectors are judged at the detailed level only",
        "encode() of a value with an absent optional member / an out-of-range field / a control character in a strict string / a NUL in a string panics by design (generated assert!s, write_string): the spec predicts the panic, a deviation is DRIFT (C14's text is about decoding and about re-encoding decoded values)",
        "demo padding (Unpacker::new_from_demo) is not part of the descriptions: deviations on padded input are DRIFT unless the bytes are exactly the canonical ones (padding length 0) or the code panics",
        "field semantics (what a value means) are not decided; the Rust type name of the decoded value is compared at the detailed level only",
        "truncations/mutations/random inputs beyond the logged budget are executed and counted (no panic, no hang) but not validated one by one by TLC",
    ]


def replay(ctx, path):
    rep = json.load(open(path))["replay"]
    proto = rep["proto"]
    fname = dict(PROTOS)[proto]
    bins = core.build_harness(["vh-gamenet"])
    exe = os.path.join(bins, "vh-gamenet")
    if "vec" in rep:
        rc, out = core.run_harness([exe, "replay", proto], stdin=json.dumps(rep["vec"]) + "\n", timeout=120)
        recs = [json.loads(l) for l in out.splitlines() if l.startswith("{")]
        groups = judge_vectors(ctx, proto, recs)
        core.log("[replay] vector %s of %s: %s" % (rep["vec"]["id"], proto, "still deviates" if groups else "matches the spec now"))
        src = rep["vec"]
    else:
        src = rep["event"]
    if src.get("k") == "benc" or ("vals" in src and "entry" not in src):
        inp = {"sec": src["sec"], "mi": src["mi"], "vals": src["vals"], "src": src.get("src", "vec")}
        rc, out = core.run_harness([exe, "run", proto], stdin=json.dumps(inp) + "\n", timeout=120)
        trace = os.path.join(ctx.workdir, "replay.ndjson")
        open(trace, "w").write(out)
        judge_trace(ctx, proto, fname, trace, "replay")
        return
    # and through the trace spec: re-execute the input, let TLC judge the fresh outcome
    inp = {"entry": src["entry"], "ord": src["ord"], "uuid": src["uuid"], "data": src["data"], "src": src.get("src", "vec")}
    rc, out = core.run_harness([exe, "run", proto], stdin=json.dumps(inp) + "\n", timeout=120)
    if rc == 97:
        ctx.report("hang:%s" % proto, "call did not return", rep)
        return
    trace = os.path.join(ctx.workdir, "replay.ndjson")
    open(trace, "w").write(out)
    judge_trace(ctx, proto, fname, trace, "replay")
