"""Shared driver of the SnapAlg component (properties C09, C10, C11).

Direction A: TLC enumerates the cases of a family of spec/snapalg/MC_SnapAlg.tla
             (`MC_<Fam>_laws.cfg`: the algebraic laws on the model; `MC_<Fam>_exp.cfg`:
             every case exported, piped into `vh-snapalg run`), the harness executes every
             case on the real code and records one NDJSON event per case.
Direction B: `vh-snapalg drive` executes seeded random cases of real size and records the
             same kind of events.
Verdict:     TLC judges every event with SnapAlgTrace.tla (the operators of SnapAlg.tla).
             COMPLAINT lines of level "V" are violations of the property, level "D" is drift.
"""
import concurrent.futures as cf
import resource
import hashlib
import json
import os
import re
import shutil
import subprocess
import threading
import time

from checklib import core

SPEC = os.path.join(core.SPEC, "snapalg")
_lock = threading.Lock()
_ctr = [0]


def _uniq(prefix):
    with _lock:
        _ctr[0] += 1
        return os.path.join(core.WORK, "%s-%d-%d" % (prefix, os.getpid(), _ctr[0]))


def _limit():
    # a hostile length field must not be able to take the machine down: 8 GiB of address space
    resource.setrlimit(resource.RLIMIT_AS, (8 << 30, 8 << 30))


def _crash_info(out, rc):
    cur = out + ".cur"
    case = open(cur).read() if os.path.exists(cur) else "{}"
    return {"hang": None, "crash": case, "rc": rc, "cases": 0, "wall": 0.0}


def build():
    return os.path.join(core.build_harness(["vh-snapalg"]), "vh-snapalg")


def module_of(fam):
    """The chain families (history-shaped state machine SnapChain.tla) have their own model module."""
    return "MC_SnapChain.tla" if fam.startswith("Chain") else "MC_SnapAlg.tla"


def laws(fam, workers=2, timeout=900):
    """Model-check the laws of a family. Returns TlcResult."""
    return core.run_tlc(module_of(fam), "MC_%s_laws.cfg" % fam, cwd=SPEC, workers=workers, timeout=timeout,
                        heap="2g", stack="1g", coverage=False, metadir=_uniq("tlc-laws"))


def export_and_replay(binp, fam, out, timeout=900):
    """tlc (export cfg) | vh-snapalg run <out>; one retry when TLC itself fails to start
    (seen once under heavy machine load: exit 150 before the first state)."""
    try:
        return _export_and_replay(binp, fam, out, timeout)
    except core.ToolError as e:
        core.log("[exp] retry after: %s" % e)
        time.sleep(3)
        return _export_and_replay(binp, fam, out, timeout)


def _export_and_replay(binp, fam, out, timeout=900):
    """tlc (export cfg) | vh-snapalg run <out>. Returns number of cases executed."""
    md = _uniq("tlc-exp")
    cmd = core.tlc_cmd(module_of(fam), "MC_%s_exp.cfg" % fam, workers=1, metadir=md,
                       java_opts=["-Xmx2g", "-Xss1g"])
    e = dict(os.environ)
    e.pop("JAVA_TOOL_OPTIONS", None)
    t0 = time.time()
    p1 = subprocess.Popen(cmd, cwd=SPEC, env=e, stdout=subprocess.PIPE, stderr=subprocess.STDOUT)
    p2 = subprocess.Popen([binp, "run", out], cwd=core.VERIF, stdin=p1.stdout, stdout=subprocess.PIPE, text=True, env=e,
                          preexec_fn=_limit)
    p1.stdout.close()
    try:
        out2, _ = p2.communicate(timeout=timeout)
        p1.wait(timeout=120)
    except subprocess.TimeoutExpired:
        p1.kill()
        p2.kill()
        raise core.ToolError("export pipe timed out: %s" % fam)
    finally:
        shutil.rmtree(md, ignore_errors=True)
    hang = re.search(r"^HANG (.*)$", out2, re.M)
    if hang:
        return {"hang": hang.group(1), "cases": 0, "wall": time.time() - t0}
    m = re.search(r"CASES (\d+)", out2)
    if p2.returncode not in (0, 97) and (p2.returncode < 0 or p2.returncode >= 128 or p2.returncode == 101):
        return _crash_info(out, p2.returncode)
    if p1.returncode != 0 or p2.returncode != 0 or not m:
        raise core.ToolError("export pipe failed for %s: tlc rc=%s harness rc=%s out=%s" % (fam, p1.returncode, p2.returncode, out2[-500:]))
    core.log("[exp] %s: %s cases in %.1fs" % (fam, m.group(1), time.time() - t0))
    return {"hang": None, "cases": int(m.group(1)), "wall": time.time() - t0}


def drive(binp, fam, seed, n, out, timeout=900):
    try:
        r = subprocess.run([binp, "drive", fam, str(seed), str(n), out], stdout=subprocess.PIPE, stderr=subprocess.PIPE,
                           text=True, timeout=timeout, cwd=core.VERIF, preexec_fn=_limit)
    except subprocess.TimeoutExpired:
        raise core.ToolError("harness drive timed out")
    rc, o = r.returncode, r.stdout
    hang = re.search(r"^HANG (.*)$", o, re.M)
    if hang:
        return {"hang": hang.group(1), "cases": 0}
    if rc < 0 or rc >= 128 or rc == 101:
        return _crash_info(out, rc)
    if rc != 0:
        raise core.ToolError("harness drive failed rc=%s: %s" % (rc, o[-500:]))
    return {"hang": None, "cases": n}


def _chain_continuation(line):
    """A chain event other than the first of its chain (serde_json writes the keys sorted, no blanks)."""
    return '"op":"chain"' in line and '"n":1,"op":"chain"' not in line


def split(path, parts):
    """Split an NDJSON file into <= parts files of about equal byte size."""
    size = os.path.getsize(path)
    if parts <= 1 or size < 200000:
        return [path]
    lines = open(path).read().splitlines()
    per = (size + parts - 1) // parts
    outs, cur, cur_sz = [], [], 0
    for ln in lines:
        # the events of one chain stay together (the judge carries the state of the chain)
        if cur_sz >= per and len(outs) < parts - 1 and not _chain_continuation(ln):
            outs.append(cur)
            cur, cur_sz = [], 0
        cur.append(ln)
        cur_sz += len(ln) + 1
    if cur:
        outs.append(cur)
    paths = []
    for k, chunk in enumerate(outs):
        p = "%s.part%d" % (path, k)
        with open(p, "w") as fh:
            fh.write("\n".join(chunk) + "\n")
        paths.append(p)
    return paths


# TLC wraps long tuples over several lines: match across white space
_RE_C = re.compile(r'<<\s*"COMPLAINT",\s*(\d+),\s*"([VD])",\s*"([^"]*)"\s*>>')
_RE_REJ = re.compile(r'<<\s*"TRACE REJECTED",\s*"consumed",\s*(\d+),\s*"of",\s*(\d+),\s*"violations",\s*(-?\d+)\s*>>')


def judge_file(path, timeout=1800):
    """Validate one trace file. Returns dict(events, complaints=[(idx, lvl, text)], rejected, tlc)."""
    n = sum(1 for _ in open(path))
    if n == 0:
        return {"events": 0, "complaints": [], "rejected": False, "path": path, "wall": 0.0}
    e = {"TRACE": os.path.abspath(path)}
    res = core.run_tlc("SnapAlgTrace.tla", "SnapAlgTrace.cfg", cwd=SPEC, workers=1, timeout=timeout, env=e, heap="4g",
                       stack="1g", deque=True, metadir=_uniq("tlc-trace"))
    comps = [(int(m.group(1)), m.group(2), m.group(3)) for m in _RE_C.finditer(res.out)]
    rejected = "TRACE REJECTED" in res.out
    mr = _RE_REJ.search(res.out)
    nv = sum(1 for _, l, _ in comps if l == "V")
    if (mr and int(mr.group(3)) != nv) or (rejected and not mr) or (not rejected and nv):
        raise core.ToolError("complaint lines of the trace validation could not be matched with its verdict on %s (%s parsed, verdict %s)"
                             % (path, nv, mr.group(0) if mr else rejected))
    if res.error or (not res.ok and not rejected):
        raise core.ToolError("trace validation failed on %s: %s" % (path, (res.error or res.out[-800:])))
    if res.distinct != n + 1 and not rejected:
        raise core.ToolError("trace validation consumed %d of %d events of %s" % (res.distinct - 1, n, path))
    return {"events": n, "complaints": comps, "rejected": rejected, "path": path, "wall": res.wall_s}


def judge(paths, par=4, timeout=1800):
    with cf.ThreadPoolExecutor(max_workers=par) as ex:
        return list(ex.map(lambda p: judge_file(p, timeout), paths))


# ---------------------------------------------------------------- case identity, keys, samples
def case_of(ev):
    """The input of an event (what `vh-snapalg one` needs to run it again)."""
    op = ev.get("op")
    if op == "pair":
        return _with_prev({"op": "pair", "A": ev["A"], "B": ev["B"], "osz": ev["osz"]}, ev)
    if op == "snap":
        return _with_prev({"op": "snap", "adds": ev["adds"], "adds2": ev["adds2"], **({"base": ev["base"]} if "base" in ev else {}),
                "probe": [[p["ty"], p["i"]] for p in ev.get("probes", [])],
                "copies": sorted({c["src"] for c in ev.get("copies", [])} | {r["src"] for r in ev.get("rec", [])})}, ev)
    if op == "chain":
        # one step; the whole chain is assembled by chain_case() from the events before it
        return {"op": "chain", **{k: v for k, v in ev.get("hdr", {}).items() if k != "op"}, "steps": [ev["step"]], "n": ev["n"]}
    if op == "api":
        return {k: ev[k] for k in ("op", "keys", "kints", "udata", "dpairs", "hw", "items", "probe", "adds", "sprobe", "osz", "osz2", "cap") if k in ev}
    c = {"op": "parse", "kind": ev["kind"], "w": ev["w"], "adds2": ev["adds2"], "osz": ev.get("osz", [])}
    if ev["kind"] in ("si", "sb"):
        c["other"] = ev.get("other", [])
    else:
        c["base"] = ev.get("base", [])
    return _with_prev(c, ev)


def chain_case(evs, idx):
    """The chain up to and including event `idx` (0-based) of the event list."""
    j = idx
    while j > 0 and evs[j].get("n", 1) != 1:
        j -= 1
    hdr = {k: v for k, v in evs[idx].get("hdr", {}).items() if k != "op"}
    return {"op": "chain", **hdr, "steps": [e["step"] for e in evs[j:idx + 1]]}


def _with_prev(c, ev):
    if "prev" in ev:
        c["prev"] = ev["prev"]
    return c


def digest(obj):
    return hashlib.sha1(json.dumps(obj, sort_keys=True).encode()).hexdigest()[:12]


def shape_of(ev):
    """Coarse, stable description of the input for known-finding keys."""
    op = ev.get("op")
    if op == "snap":
        u = {tuple(a["ty"]) for a in ev["adds"] if len(a["ty"]) == 4}
        return "uuid_types=%s" % ("0" if not u else "1" if len(u) == 1 else ">=2")
    if op == "chain":
        return "%s:%s" % (ev.get("lvl"), ev.get("step", {}).get("k"))
    if op == "api":
        return "api"
    if op == "parse":
        items = None
        if ev["kind"] in ("si", "sb") and ev.get("raw", {}).get("out") == "ok":
            items = ev["raw"]["obs"]["items"]
        elif ev["kind"] in ("di", "db") and ev.get("d", {}).get("apply") == "ok":
            items = ev["d"]["res"]["items"]
        if items is None:
            return ev["kind"]
        reg = [it for it in items if it["t"] == 0]
        nreg = len(reg)
        odd = any(it["i"] < 0x4000 or it["i"] >= 0x8000 for it in reg) or any(it["t"] >= 0x8000 for it in items)
        return "%s:registry_items=%s%s" % (ev["kind"], "0" if nreg == 0 else "1" if nreg == 1 else ">=2",
                                          ":numbers-outside-4000-7fff" if odd else "")
    return "pair"


def nontrivial(ev):
    op = ev.get("op")
    if op == "pair":
        return ev["A"] != ev["B"]
    if op == "snap":
        return any(len(a["ty"]) == 4 for a in ev["adds"])
    if op == "chain":
        # a step that carries a delta which changes something (or applies one once more)
        return ev["step"].get("k") == "again" or len(ev.get("dw", {}).get("v", [])) > 3
    if op == "api":
        return True
    return len(ev.get("w", [])) > 0


# the 18 variants of snap::Error; TooLongDiff needs more than 2^32 integers of input
ERROR_ALPHABET = ["UnexpectedEnd", "IntOutOfRange", "DeletedItemsUnpacking", "ItemDiffsUnpacking", "TypeIdRange", "IdRange",
                  "NegativeSize", "TooLongSnap", "TooManyItems", "DeltaDifferingSizes", "OffsetsUnpacking", "InvalidOffset",
                  "ItemsUnpacking", "DuplicateKey", "DuplicateUuidType", "InvalidUuidType", "MissingUuidType"]


def outcomes_of(ev):
    """Outcome strings of the library calls of an event (evidence: which error classes occurred)."""
    out = []
    if ev.get("op") == "parse":
        for k in ("raw", "snap"):
            if isinstance(ev.get(k), dict) and "out" in ev[k]:
                out.append(ev[k]["out"])
        d = ev.get("d")
        if isinstance(d, dict):
            out.append(d.get("read", "?"))
            if "apply" in d:
                out.append(d["apply"])
    elif ev.get("op") == "pair":
        for k in ("r_ints", "r_bytes", "r_ref"):
            if isinstance(ev.get(k), dict):
                out.append(ev[k].get("apply", ev[k].get("read", "?")))
    elif ev.get("op") == "snap":
        out += list(ev.get("outs", []))
        out += [c.get("out", "?") for c in ev.get("copies", [])]
    elif ev.get("op") == "chain":
        rc = ev.get("rcv")
        if isinstance(rc, dict):
            out.append("chain-" + str(rc.get("apply", rc.get("read", "?"))))
    return out


def trim(obj, n=24):
    """Shorten long arrays for the evidence samples."""
    if isinstance(obj, list):
        if len(obj) > n:
            return [trim(x, n) for x in obj[:n]] + ["...(%d more)" % (len(obj) - n)]
        return [trim(x, n) for x in obj]
    if isinstance(obj, dict):
        return {k: trim(v, n) for k, v in obj.items()}
    return obj


class Run:
    """Accumulates the results of the trace validations of one check run."""

    def __init__(self, ctx):
        self.ctx = ctx
        self.events = 0
        self.seen = set()
        self.nontrivial = set()
        self.reported = {}     # key -> count
        self.drift = {}        # text -> count
        self.traces = 0
        self.outcomes = {}
        self.chain_steps = 0
        self.chains = 0

    def account(self, results, label):
        ctx = self.ctx
        for r in results:
            if r["events"] == 0:
                continue
            self.traces += 1
            ctx.coverage["traces_validated_against_impl"] += 1
            evs = core.read_ndjson(r["path"])
            self.events += len(evs)
            roll = ""
            for ev in evs:
                if ev.get("op") == "chain":
                    # a step counts with the chain before it
                    roll = digest([roll if ev.get("n", 1) != 1 else "", ev.get("hdr"), ev.get("step")])
                    d = roll
                    self.chain_steps += 1
                    self.chains += 1 if ev.get("n", 1) == 1 else 0
                else:
                    d = digest(case_of(ev))
                self.seen.add(d)
                if nontrivial(ev):
                    self.nontrivial.add(d)
                for o in outcomes_of(ev):
                    self.outcomes[o] = self.outcomes.get(o, 0) + 1
            for ev in evs[:1]:
                ctx.sample({"from": label, "case": trim(case_of(ev)), "event_fields": sorted(ev.keys())}, limit=6)
            for idx, lvl, text in r["complaints"]:
                ev = evs[idx - 1]
                if lvl == "D":
                    self.drift[text] = self.drift.get(text, 0) + 1
                    continue
                key = "%s:%s:%s" % (ev.get("op"), text, shape_of(ev))
                self.reported[key] = self.reported.get(key, 0) + 1
                if self.reported[key] == 1:
                    rep = chain_case(evs, idx - 1) if ev.get("op") == "chain" else case_of(ev)
                    ctx.report(key, "%s (%s, event %d of %s)" % (text, label, idx, os.path.basename(r["path"])), rep)
            ctx.add_run("trace validation: " + label, events=r["events"], complaints=len(r["complaints"]),
                        wall_s=round(r["wall"], 1))

    def hang(self, info, label):
        try:
            case = json.loads(info)
        except Exception:
            case = {"raw": info}
        self.ctx.report("hang:%s" % label, "a library call did not return within the watchdog limit (%s)" % label, case)

    def crash(self, info, label):
        try:
            case = json.loads(info["crash"])
        except Exception:
            case = {"raw": info["crash"]}
        self.ctx.report("process-abort:%s" % label,
                        "the process running the library aborted (exit %s: allocation failure, abort or double panic) in %s" % (info["rc"], label), case)

    def finish(self, rule):
        ctx = self.ctx
        for text, n in sorted(self.drift.items()):
            ctx.report_drift("%s (%d events)" % (text, n))
        for key, n in sorted(self.reported.items()):
            if n > 1:
                ctx.note("%s: %d events in total" % (key, n))
        ctx.coverage["outcomes_observed"] = dict(sorted(self.outcomes.items()))
        if self.ctx.id == "C11" and self.events > 1000:
            missing = [e for e in ERROR_ALPHABET if self.outcomes.get(e, 0) == 0]
            if missing:
                ctx.note("vacuity: error classes never produced by the code in this run: %s" % ", ".join(missing))
        if self.chains:
            ctx.coverage["chains"] = {"chains": self.chains, "steps": self.chain_steps}
        ctx.coverage["evaluations"] = self.events
        ctx.coverage["distinct_nontrivial"] = len(self.nontrivial)
        ctx.coverage["distinct_cases"] = len(self.seen)
        ctx.coverage["rule"] = rule


def _account_laws(ctx, results):
    for fam, res in results:
        ctx.add_states(res, "laws of family %s (MC_%s_laws.cfg)" % (fam, fam))
        if fam.startswith("Chain"):
            oos = len(re.findall(r'<<"OUTOFSYNC"', res.out))
            if oos:
                errs = {}
                for m in re.finditer(r'<<"OUTOFSYNC", "(\w+)", "(\w+)">>', res.out):
                    errs[m.group(1) + ":" + m.group(2)] = errs.get(m.group(1) + ":" + m.group(2), 0) + 1
                ctx.add_run("out-of-sync applications on the model (family %s)" % fam, steps=oos, outcomes=errs,
                            harmless=len(re.findall(r'<<"HARMLESS"', res.out)),
                            wrong_result_with_the_checksum_of_the_target_and_no_warning=len(re.findall(r'<<"UNDETECTED"', res.out)))
        if not res.ok:
            if res.violated:
                ctx.report("spec-law:%s:%s" % (fam, res.violated), "law %s violated on the model (family %s)" % (res.violated, fam),
                           {"tlc_output_tail": res.out[-3000:]})
            else:
                raise core.ToolError("TLC failed on the laws of %s: %s" % (fam, res.error))


def run_all(ctx, run, binp, law_fams, a_fams, b_fam, nb, seeds=1, par=4, law_workers=2, more_b=()):
    """Stage 1 (in parallel): the laws of the families are model-checked, the families are exported
    and replayed on the real code, the random driver records its traces. Stage 2 (in parallel):
    every recorded trace is judged by SnapAlgTrace.tla. Returns the list of direction-B traces."""
    jobs = []
    with cf.ThreadPoolExecutor(max_workers=par) as ex:
        for f in law_fams:
            jobs.append(("law", f, ex.submit(laws, f, law_workers)))
        for f in a_fams:
            out = os.path.join(ctx.workdir, "A-%s.ndjson" % f)
            jobs.append(("A", (f, out), ex.submit(export_and_replay, binp, f, out)))
        for s in range(seeds):
            out = os.path.join(ctx.workdir, "B-%s-%d.ndjson" % (b_fam, s))
            jobs.append(("B", (s, out, b_fam, nb), ex.submit(drive, binp, b_fam, ctx.seed * 1000 + s, nb, out)))
            # further drivers (random chains, api cases): (family, number of cases)
            for fam2, n2 in more_b:
                out2 = os.path.join(ctx.workdir, "B-%s-%d.ndjson" % (fam2, s))
                jobs.append(("B", (s, out2, fam2, n2), ex.submit(drive, binp, fam2, ctx.seed * 1000 + s, n2, out2)))
        done = [(k, a, fu.result()) for k, a, fu in jobs]
    _account_laws(ctx, [(a, r) for k, a, r in done if k == "law"])
    files = []          # (label, path)
    b_paths = []
    for k, a, info in done:
        if k == "A":
            f, out = a
            if info.get("crash"):
                run.crash(info, "direction A, family " + f)
                continue
            if info["hang"]:
                run.hang(info["hang"], "direction A, family " + f)
                continue
            ctx.add_run("direction A: family %s replayed on the real code" % f, cases=info["cases"], wall_s=round(info["wall"], 1))
            files.append(("A:" + f, out))
        elif k == "B":
            sd, out, bf, nbf = a
            if info.get("crash"):
                run.crash(info, "direction B, driver " + bf)
                continue
            if info["hang"]:
                run.hang(info["hang"], "direction B, driver " + bf)
                continue
            ctx.add_run("direction B: %d seeded random %s cases of real size" % (nbf, bf), seed=ctx.seed * 1000 + sd)
            files.append(("B:" + bf, out))
            if bf == b_fam:
                b_paths.append(out)
    # parts in proportion to the size of the files
    # (more parts than processes: the cost of judging is roughly proportional to the bytes, and the
    # few files with 64 KiB events would otherwise be the longest pole)
    total = sum(os.path.getsize(p) for _, p in files) or 1
    target = max(total / (2.0 * par), 1500000.0)
    parts = []
    for label, p in files:
        k = max(1, int(-(-os.path.getsize(p) // target)))
        for q in split(p, k):
            parts.append((label, q))
    parts.sort(key=lambda lp: -os.path.getsize(lp[1]))
    res = judge([p for _, p in parts], par=par)
    for (label, _), r in zip(parts, res):
        run.account([r], label)
    return b_paths


def binding_selftest(ctx, path, mutate):
    """Corrupt one logged field of the first event of a recorded trace: TLC must reject it."""
    evs = core.read_ndjson(path)
    if not evs:
        return
    ev = json.loads(json.dumps(evs[0]))
    what = mutate(ev)
    p = os.path.join(ctx.workdir, "selftest-%s.ndjson" % digest(what))
    with open(p, "w") as fh:
        fh.write(json.dumps(ev) + "\n")
    r = judge_file(p)
    ok = r["rejected"] and any(l == "V" for _, l, _ in r["complaints"])
    ctx.add_run("binding self-test: " + what, rejected=ok)
    if not ok:
        raise core.ToolError("binding self-test failed: a corrupted event (%s) was accepted" % what)


def replay(ctx, path):
    binp = build()
    out = os.path.join(ctx.workdir, "replay.ndjson")
    r = subprocess.run([binp, "one", path, out], stdout=subprocess.PIPE, stderr=subprocess.PIPE, text=True, timeout=300,
                       cwd=core.VERIF, preexec_fn=_limit)
    rc, o = r.returncode, r.stdout
    run = Run(ctx)
    hang = re.search(r"^HANG (.*)$", o, re.M)
    if hang:
        run.hang(hang.group(1), "replay")
    elif rc < 0 or rc >= 128 or rc == 101:
        run.crash(_crash_info(out, rc), "replay")
    else:
        if rc != 0:
            raise core.ToolError("harness failed on the replay file: %s" % o[-300:])
        run.account(judge([out], par=1), "replay")
    run.finish("replay of one stored case")
