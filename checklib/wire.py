"""Shared pipeline of the packet wire-format checks (C05, C06).

  TLC (spec/wire/MC_Wire.tla)  -- laws of Wire.tla / Wire7.tla on every enumerated case,
       |                           each case printed as a vector (piped, never stored)
       v
  vh-wire exec                 -- runs every vector through the real pack/unpack/write/read,
       |                           records what the code did (one event per case)
  vh-wire drive                -- direction B: seeded random / structured cases, real sizes
       v
  TLC (spec/wire/WireTrace.tla) -- judges every event: property level (violation) and
                                   detail level (drift); prints one BAD line per rejected event

Python only moves data between these and labels what TLC rejected.
"""
import json
import os
import re
import subprocess
import time

from checklib import core

SPECDIR = os.path.join(core.SPEC, "wire")
KINDS = {"C05": ("hf", "hb", "rt", "wc"), "C06": ("rd", "it")}
PARTS = {"C05": "c05", "C06": "c06"}

_RE_BAD = re.compile(r'<<\s*"BAD",\s*(\d+),\s*(\{[^}]*\}),\s*(\{[^}]*\})\s*>>', re.S)


def _names(setstr):
    return sorted(re.findall(r'"([^"]+)"', setstr))


def load_events_pos(path):
    """[(position, event)] of an events file in trace order. The position is the one WireTrace prints in
    its BAD lines: base + index for the items of a batch, the line number for a plain event."""
    evs = []
    with open(path) as fh:
        ln = 0
        for line in fh:
            line = line.strip()
            if not line:
                continue
            ln += 1
            o = json.loads(line)
            if o.get("k") == "batch":
                evs.extend((o["base"] + j + 1, it) for j, it in enumerate(o["items"]))
            else:
                evs.append((ln, o))
    return evs


def load_events(path):
    return [e for _, e in load_events_pos(path)]


def case_of(ev):
    """The case (input) an event was produced from: what `vh-wire exec` needs to redo it."""
    k = ev.get("k")
    if k == "hf":
        return {"k": "hf", "v": ev["v"], "hk": ev["hk"], "h": ev["h"]}
    if k == "hb":
        return {"k": "hb", "v": ev["v"], "hk": ev["hk"], "b": ev["b"]}
    if k == "rt":
        c = {"k": "rt", "v": ev["v"], "hascl": ev["hascl"], "cl": ev["cl"], "p": ev["p"], "cap": ev["cap"]}
        if isinstance(ev.get("rd"), dict) and "cap" in ev["rd"]:
            c["rcap"] = ev["rd"]["cap"]
        return c
    if k == "rd":
        return {"k": "rd", "v": ev["v"], "hint": ev["hint"], "cap": ev["cap"], "bytes": ev["bytes"]}
    if k == "wc":
        return {"k": "wc", "v": ev["v"], "p": ev["p"], "caps": [w["cap"] for w in ev.get("ws", [])]}
    if k == "it":
        return {"k": "it", "v": ev["v"], "nc": ev["nc"], "data": ev["data"]}
    return ev


def _subkind(ev):
    k = ev.get("k")
    if k in ("hf", "hb"):
        return ev.get("hk", "?")
    if k in ("rt", "wc"):
        return ev.get("p", {}).get("t", "?") + ("/" + ev["p"]["c"] if ev.get("p", {}).get("t") == "ctrl" else "")
    if k == "it":
        return "chunks-iter"
    if k == "rd":
        out = ev.get("out", {})
        if out.get("r") == "ok":
            return "accepted-" + out["p"].get("t", "?")
        return out.get("r", "?")
    return "?"


def _observed(ev):
    """Warnings / panic sites seen in an event: part of the key so that findings can be told apart."""
    seen = set()

    def walk(o):
        if isinstance(o, dict):
            if o.get("r") == "panic":
                seen.add("panic@" + os.path.basename(str(o.get("at", "")) or "?"))
            for kk, vv in o.items():
                if kk == "w" and isinstance(vv, list):
                    seen.update(x for x in vv if isinstance(x, str))
                elif kk in ("un", "rd", "rd2", "rw", "out", "ci", "wr", "din", "rpod", "init", "built", "ref", "api", "end"):
                    walk(vv)
                elif kk in ("ws", "steps", "after") and isinstance(vv, list):
                    for x in vv:
                        walk(x)
    walk(ev)
    return sorted(seen)


GAP_NAMES = ("accepted-unwritable:connless-payload-over-1390", "accepted-unwritable:v7-response-token-ffffffff")


def key_of(ev, fails):
    # the recorded findings F3 / F4 of C06 get their stable keys only when nothing else is wrong with the event
    if len(fails) == 1 and fails[0] in GAP_NAMES and ev.get("k") == "rd":
        p = ev.get("out", {}).get("p", {})
        what = ("payload-%d" % len(p.get("data", []))) if p.get("t") == "connless" else p.get("c", "?")
        return "%s:v%s:%s" % (fails[0], ev.get("v"), what)
    return "%s:v%s:%s:%s:[%s]" % (ev.get("k"), ev.get("v"), _subkind(ev), "+".join(fails), ",".join(_observed(ev)))


def tlc_export_exec(ctx, bins, cfg, events_path, timeout, label):
    """MC_Wire with Export = TRUE piped into `vh-wire exec`. Returns number of events."""
    t0 = time.time()
    tres, rc, out = core.tlc_pipe("MC_Wire.tla", cfg, [bins + "/vh-wire", "exec", events_path], cwd=SPECDIR,
                                  timeout=timeout, workers=1, heap="4g")
    tail = "\n".join(l[5:] for l in out.splitlines() if l.startswith("TLC| "))
    res = core.TlcResult()
    res.rc = tres.rc
    res.out = tail
    res.wall_s = time.time() - t0
    core.parse_tlc(tail, res)
    core.log("[tlc|exec] %s: distinct=%d generated=%d %.1fs ok=%s" % (cfg, res.distinct, res.generated, res.wall_s, res.ok))
    ctx.add_states(res, label)
    hang = [l for l in out.splitlines() if l.startswith("HANG ")]
    m = re.search(r"EVENTS (\d+) PANICS (\d+)", out)
    nev = int(m.group(1)) if m else 0
    # sweeps of whole header spaces on the real code against the class tables TLC exported (WireTab.tla)
    sweeps = []
    for mm in re.finditer(r"^SWEEP (\S+) sfx=(\S*) tuples=(\d+) mismatches=(\d+) panics=(\d+) sampled=(\d+) ms=(\d+)", out, re.M):
        sweeps.append({"table": mm.group(1), "suffix": mm.group(2), "tuples": int(mm.group(3)), "mismatches": int(mm.group(4)),
                       "panics": int(mm.group(5)), "sampled_events": int(mm.group(6)), "ms": int(mm.group(7))})
    if "SWEEP-BADTABLE" in out:
        raise core.ToolError("vh-wire could not read a class table exported by TLC: %s" % out[out.index("SWEEP-BADTABLE"):][:300])
    mb = re.search(r"BULKLAW slices=(\d+) tuples=(\d+)", out)
    res.sweeps = sweeps
    res.bulk = (int(mb.group(1)), int(mb.group(2))) if mb else (0, 0)
    if hang:
        return res, nev, hang[0][5:]
    if rc != 0:
        raise core.ToolError("vh-wire exec failed (exit %s): %s" % (rc, out[-500:]))
    if not res.ok and not res.violated and "Evaluating invariant" not in tail and "The invariant" not in tail:
        raise core.ToolError("TLC failed in %s (not a verdict): %s" % (cfg, (res.error or tail[-600:])))
    if not res.ok:
        # the laws fail on the model itself: the specification (the design) is inconsistent
        ctx.report("model:" + cfg + ":" + str(res.violated or "error"),
                   "TLC rejects a law of Wire/Wire7 on the model (%s): %s" % (cfg, (res.error or res.violated or tail[-400:])),
                   {"cfg": cfg, "tlc_tail": tail[-3000:]})
    return res, nev, None


def long_code_bytes(n=4):
    """The byte values with the longest code words of spec/huffman/HuffTable.tla (anti-compressible content)."""
    try:
        s = open(os.path.join(core.SPEC, "huffman", "HuffTable.tla")).read()
        codes = re.findall(r"<<([01, ]+)>>", s[s.index("Code == <<") + 10:])
        lens = sorted(((len(c.split(",")), b) for b, c in enumerate(codes[:256])), reverse=True)
        return [b for _, b in lens[:n]]
    except Exception:
        return []


def huff_code_lengths():
    """Code-word lengths (bits) of the 257 symbols of spec/huffman/HuffTable.tla (256 = EOF)."""
    s = open(os.path.join(core.SPEC, "huffman", "HuffTable.tla")).read()
    codes = re.findall(r"<<([01, ]+)>>", s[s.index("Code == <<") + 10:])
    return [len(c.split(",")) for c in codes[:257]]


def tie_payloads(limit=120):
    """Codec inputs whose compressed form has the input's own length, one byte less, one byte more -- derived
    from the code-word lengths of spec/huffman/HuffTable.tla (both roundings of the bit count, so that the set
    does not depend on which one the library uses). Returns (plain inputs, chunk areas for 'area + token 09 08
    07 06' inputs) as lists of bytes objects; empty when the table is not available."""
    try:
        L = huff_code_lengths()
    except Exception:
        return [], []
    if len(L) < 257:
        return [], []
    eof = L[256]
    # two byte values per code-word length
    by_len = {}
    for b in range(256):
        by_len.setdefault(L[b], []).append(b)
    syms = [b for ln in sorted(by_len) for b in by_len[ln][:2]]
    tok = [9, 8, 7, 6]
    tokbits = sum(L[b] for b in tok)

    def clens(bits):
        return {(bits + 7) // 8, bits // 8 + 1}

    plain, withtok = [], []
    for n in list(range(1, 41)) + [64, 100, 200, 500, 1000, 1392, 1393]:
        for a in syms:
            if any(abs(c - n) <= 1 for c in clens(n * L[a] + eof)):
                plain.append(bytes([a]) * n)
            if any(abs(c - (n + 4)) <= 1 for c in clens(n * L[a] + tokbits + eof)):
                withtok.append(bytes([a]) * n)
        # two-symbol mixes: i copies of a short-code byte, n - i of a long-code byte
        for i in range(1, n):
            a, b = syms[0], syms[-1]
            if n <= 24 and any(c == n for c in clens(i * L[a] + (n - i) * L[b] + eof)):
                plain.append(bytes([a]) * i + bytes([b]) * (n - i))

    def thin(xs):
        xs = sorted(set(xs), key=lambda x: (len(x), x))
        if len(xs) <= limit:
            return xs
        step = len(xs) / float(limit)
        return [xs[int(i * step)] for i in range(limit)]
    return thin(plain), thin(withtok)


def drive(bins, seed, tier, parts, events_path, timeout=600):
    env = dict(os.environ)
    lc = long_code_bytes()
    if lc:
        env["VH_LONGCODES"] = ",".join(str(b) for b in lc)
    tp, tt = tie_payloads()
    if tp:
        env["VH_TIES"] = ",".join(x.hex() for x in tp)
        env["VH_TIES_TOK"] = ",".join(x.hex() for x in tt)
    r = subprocess.run([bins + "/vh-wire", "drive", str(seed), tier, parts, events_path], stdout=subprocess.PIPE,
                       stderr=subprocess.PIPE, text=True, timeout=timeout, env=env)
    hang = [l for l in r.stdout.splitlines() if l.startswith("HANG ")]
    m = re.search(r"EVENTS (\d+) PANICS (\d+)", r.stdout)
    nev = int(m.group(1)) if m else 0
    if hang:
        return nev, hang[0][5:]
    if r.returncode != 0:
        raise core.ToolError("vh-wire drive failed (exit %s): %s %s" % (r.returncode, r.stdout[-300:], r.stderr[-500:]))
    return nev, None


def split_file(path, n):
    """Split an events file into n files of whole lines (batches), balanced by bytes."""
    lines = open(path).read().splitlines(keepends=True)
    total = sum(len(l) for l in lines)
    outs, cur, acc, target = [], [], 0, total / float(n)
    for l in lines:
        cur.append(l)
        acc += len(l)
        if acc >= target and len(outs) < n - 1:
            outs.append(cur)
            cur, acc = [], 0
    if cur:
        outs.append(cur)
    paths = []
    for i, part in enumerate(outs):
        p = "%s.part%d" % (path, i)
        open(p, "w").write("".join(part))
        paths.append(p)
    return paths


def validate(ctx, paths, level="detail", timeout=900, parallel=3):
    """Runs WireTrace on every events file (several TLC processes side by side).
    Returns a list of (global event position, prop fails, detail fails) over the concatenation
    of the files' events *per file*: [(path, pos, pf, df)], and the number of states."""
    # WireTraceH ties the recorded codec values to spec/huffman (C07) for small inputs; without that
    # directory (or if its modules no longer parse) WireTraceN judges the same events without the tie
    hdir = os.path.join(core.SPEC, "huffman")
    use_h = _huffman_usable(ctx, hdir)
    root = "WireTraceH.tla" if use_h else "WireTraceN.tla"
    cfg = ("Trace" if level == "detail" else "TraceProp") + ("" if use_h else "N") + ".cfg"
    procs = []
    results = []
    pending = list(paths)
    env = dict(os.environ)
    env.pop("JAVA_TOOL_OPTIONS", None)

    def start(p):
        md = os.path.join(core.WORK, "tlc-wt-%d-%d" % (os.getpid(), abs(hash(p)) % 10**8))
        cmd = core.tlc_cmd(root, cfg, workers=1, metadir=md,
                           java_opts=["-Xmx3g", "-Xss1g", "-Dtlc2.tool.queue.IStateQueue=StateDeque",
                                      "-DTLA-Library=" + hdir])
        e = dict(env, TRACE=os.path.abspath(p))
        return (p, md, time.time(), subprocess.Popen(cmd, cwd=SPECDIR, env=e, stdout=subprocess.PIPE,
                                                     stderr=subprocess.STDOUT, text=True))

    import shutil
    t_end = time.time() + timeout
    while pending or procs:
        while pending and len(procs) < parallel:
            procs.append(start(pending.pop(0)))
        p, md, t0, pr = procs.pop(0)
        try:
            out, _ = pr.communicate(timeout=max(1, t_end - time.time()))
        except subprocess.TimeoutExpired:
            pr.kill()
            for q in procs:
                q[3].kill()
            shutil.rmtree(md, ignore_errors=True)
            raise core.ToolError("trace validation timed out: %s" % p)
        shutil.rmtree(md, ignore_errors=True)
        res = core.TlcResult()
        res.rc = pr.returncode
        res.out = out
        res.wall_s = time.time() - t0
        core.parse_tlc(out, res)
        rejected = "TRACE REJECTED" in out
        core.log("[tlc trace] %s: states=%d %.1fs ok=%s rejected=%s" % (os.path.basename(p), res.distinct, res.wall_s, res.ok, rejected))
        if not res.ok:
            raise core.ToolError("TLC failed on trace %s: %s" % (p, (res.error or out[-1500:])))
        bad = [(int(m.group(1)), _names(m.group(2)), _names(m.group(3))) for m in _RE_BAD.finditer(out)]
        m = re.search(r'"TRACE REJECTED", "events", (\d+), "consumed", (\d+), "bad", (\d+)', out)
        if m and int(m.group(1)) != int(m.group(2)):
            raise core.ToolError("trace %s not consumed (%s of %s)" % (p, m.group(2), m.group(1)))
        if m and int(m.group(3)) != len(bad):
            raise core.ToolError("could not parse all BAD lines of %s (%d of %s)" % (p, len(bad), m.group(3)))
        if rejected and not bad:
            raise core.ToolError("trace rejected without BAD lines: %s" % out[-800:])
        ctx.coverage["traces_validated_against_impl"] += 1
        ctx.coverage["states"] += res.distinct
        ctx.coverage["transitions"] += res.generated
        results.append((p, bad, res))
    return results


_H_USABLE = {}


def _huffman_usable(ctx, hdir):
    """Does WireTraceH parse and run with the Huffman modules of spec/huffman? (checked once per run
    on an empty trace)"""
    if "v" in _H_USABLE:
        return _H_USABLE["v"]
    ok = False
    if os.path.exists(os.path.join(hdir, "Huffman.tla")) and os.path.exists(os.path.join(hdir, "HuffTable.tla")):
        empty = os.path.join(ctx.workdir, "empty.ndjson")
        open(empty, "w").write("")
        md = os.path.join(core.WORK, "tlc-wth-%d" % os.getpid())
        cmd = core.tlc_cmd("WireTraceH.tla", "Trace.cfg", workers=1, metadir=md,
                           java_opts=["-Xmx1g", "-DTLA-Library=" + hdir])
        env = dict(os.environ, TRACE=empty)
        env.pop("JAVA_TOOL_OPTIONS", None)
        try:
            r = subprocess.run(cmd, cwd=SPECDIR, env=env, stdout=subprocess.PIPE, stderr=subprocess.STDOUT, text=True, timeout=300)
            ok = "No error has been found" in r.stdout
        except subprocess.TimeoutExpired:
            ok = False
        import shutil
        shutil.rmtree(md, ignore_errors=True)
    if not ok:
        ctx.note("spec/huffman not usable: codec values are judged as recorded (WireTraceN)")
    else:
        ctx.note("codec values of small inputs (<= 48 bytes) are tied to spec/huffman/Huffman.tla (WireTraceH)")
    _H_USABLE["v"] = ok
    return ok


def judge(ctx, pid, results, what):
    """Turn the BAD lines of validated traces into verdicts for property `pid`.
    Property-level failures -> violation (one report per distinct key); detail-only -> drift."""
    nviol = ndrift = 0
    seen_keys = {}
    for path, bad, res in results:
        if not bad:
            continue
        evs = dict(load_events_pos(path))
        for pos, pf, df in bad:
            if pos not in evs:
                raise core.ToolError("BAD position %d of %s does not name a recorded event" % (pos, path))
            ev = evs[pos]
            if pf:
                key = key_of(ev, pf)
                ent = seen_keys.setdefault(key, {"n": 0, "cases": [], "fails": pf, "detail": df})
                ent["n"] += 1
                if len(ent["cases"]) < 3:
                    ent["cases"].append(case_of(ev))
                nviol += 1
            else:
                ndrift += 1
                ctx.report_drift("%s %s: the code differs from the detailed spec in %s (property-level clauses hold) case=%s" % (
                    what, key_of(ev, df), ",".join(df), json.dumps(case_of(ev))[:300]))
    for key, ent in sorted(seen_keys.items()):
        ctx.report(key, "%s: %d event(s) break %s" % (what, ent["n"], ",".join(ent["fails"])),
                   {"cases": ent["cases"], "prop_fails": ent["fails"], "detail_fails": ent["detail"], "count": ent["n"]})
    return nviol, ndrift


def hang_event(ctx, pid, case_json, what):
    try:
        case = json.loads(case_json)
    except Exception:
        case = {"raw": case_json}
    ctx.report("hang:%s:v%s" % (case.get("k"), case.get("v")), "%s: a call did not return (watchdog): %s" % (what, case_json[:300]),
               {"cases": [case], "prop_fails": ["hang"]})


def count_nontrivial(paths, kinds):
    """Distinct non-trivial cases by rule: distinct inputs (canonical JSON of the case) whose
    event exercised the real code beyond an early length error."""
    seen = set()
    evals = 0
    for p in paths:
        for ev in load_events(p):
            if ev.get("k") not in kinds:
                continue
            evals += 1
            if ev.get("k") == "rd":
                out = ev.get("out", {})
                if out.get("r") == "err" and out.get("e") in ("TooShort", "TooLong"):
                    continue
            seen.add(json.dumps(case_of(ev), sort_keys=True))
    return evals, len(seen)


def run_property(ctx, pid):
    tier = ctx.tier
    bins = core.build_harness(["vh-wire"])
    wd = ctx.workdir
    quick = tier == "quick"
    ctx.coverage["rule"] = ("distinct case inputs (header field tuples, header byte patterns, packet values, (packet, capacity list) pairs, "
                            "datagrams, (chunk area, announced count) pairs) run through the real code and judged by WireTrace; datagrams rejected "
                            "as TooShort/TooLong are not counted; plus every tuple of the header spaces swept against the class tables of "
                            "WireTab.tla (distinct by construction; the table law is checked by TLC on the same spaces)")
    ctx.assumptions += [
        "Huffman is not modelled in Wire/Wire7: the codec's values (compress of the body, decompress of the datagram body) are "
        "taken from the recorded event; that they are inverse and match the reference is property C07. A codec that is not "
        "inverse still shows up here as a failed write->read round trip.",
        "On the model (TLC) a toy run-length codec stands in for Huffman so that both compression branches, expansion beyond a "
        "packet and invalid streams are explored.",
        "C05 quantifies over values the writer is specified for (Expressible): connless payload <= 1390, chunk area (+token) <= "
        "1397/1393, close reasons NUL-free and <= 127 bytes, 0.7 response tokens != ffffffff; Chunks(request_resend=false, 0 chunks) "
        "reads back with the intentional ChunksNoChunks warning. C06 demands that every value the reader accepts survives write -> read; "
        "the two recorded exceptions are the known findings F3 (connless payload 1391..1394 / 1391 accepted, writer refuses) and F4 (0.7 "
        "Connect/Token with response token ffffffff accepted, writer asserts), reported as KNOWN-FINDING on every run.",
        "Slice provenance (inb), canaries around the scratch buffer, panics and hangs are observations of the harness; TLA+ has no "
        "notion of addresses (DESIGN section 7).",
    ]

    # ---- model: exhaustive byte spaces and the UTF-8 predicate (no export)
    paths = []
    if pid == "C06" and not quick:
        r = core.run_tlc("MC_Wire.tla", "MC_utf.cfg", cwd=SPECDIR, workers=1, timeout=600)
        ctx.add_states(r, "UTF-8 predicate of the token heuristic = 2650112 valid 3-byte strings; toy codec compresses some model packets")
        if not r.ok:
            ctx.report("model:utf", "Utf8Valid3 does not count 2650112: %s" % (r.error or r.violated), {"cfg": "MC_utf.cfg"})
    if not quick:
        deep_model(ctx, pid)

    # ---- direction A: every enumerated case through the real code
    cfg = "Exp_%s_%s.cfg" % (pid, tier)
    evA = os.path.join(wd, "A.ndjson")
    res, nA, hang = tlc_export_exec(ctx, bins, cfg, evA, timeout=2400 if not quick else 900,
                                    label="MC_Wire %s: laws on every case + export of the cases to the real code" % cfg)
    if hang:
        hang_event(ctx, pid, hang, "direction A")
    paths.append(evA)
    sweeps = getattr(res, "sweeps", [])
    if sweeps:
        ctx.add_run("whole header spaces swept on the real code against the class tables exported from WireTab.tla "
                    "(every tuple: unpack + re-pack / pack + unpack; differing tuples and a regular sample recorded as events)",
                    tables=sweeps, tuples=sum(x["tuples"] for x in sweeps), mismatches=sum(x["mismatches"] for x in sweeps))
        ctx.coverage["header_tuples_swept_on_real_code"] = sum(x["tuples"] for x in sweeps)
        ctx.coverage["header_tuples_differing_from_table"] = sum(x["mismatches"] for x in sweeps)
    bulk = getattr(res, "bulk", (0, 0))
    if bulk[0]:
        ctx.add_run("header laws + table law checked by TLC in bulk (one state per slice of a header space)",
                    slices=bulk[0], tuples=bulk[1])
        ctx.coverage["evaluations_model_bulk"] = ctx.coverage.get("evaluations_model_bulk", 0) + bulk[1]

    # ---- direction B: seeded random / structured cases with real sizes
    evB = os.path.join(wd, "B.ndjson")
    nB, hang = drive(bins, ctx.seed, tier, PARTS[pid], evB)
    if hang:
        hang_event(ctx, pid, hang, "direction B")
    paths.append(evB)
    ctx.add_run("events recorded from the real code", direction_A=nA, direction_B=nB)

    # ---- judge every event with WireTrace
    par = 8
    parts = []
    for p in paths:
        parts += split_file(p, par if os.path.getsize(p) > (4 << 20) else 1)
    results = validate(ctx, parts, timeout=2400 if not quick else 1200, parallel=par)
    nstates = sum(r.distinct for _, _, r in results)
    ctx.add_run("WireTrace validation", files=len(parts), states=nstates,
                wall_s=round(sum(r.wall_s for _, _, r in results), 1))
    nviol, ndrift = judge(ctx, pid, results, "wire %s" % pid)
    nmis = sum(x["mismatches"] for x in sweeps)
    if nmis and not (nviol or ndrift):
        raise core.ToolError("%d header tuples differ from the class table but WireTrace accepts their events: table and "
                             "trace specification disagree" % nmis)
    evals, distinct = count_nontrivial(parts, KINDS[pid])
    ctx.coverage["evaluations"] = evals + sum(x["tuples"] for x in sweeps)
    ctx.coverage["distinct_nontrivial"] = distinct + sum(x["tuples"] for x in sweeps)
    ctx.coverage["exhaustive"] = False
    if sweeps:
        ctx.note("headers: exhaustive on the real code (every tuple of %d header spaces, %d tuples) against the class tables; "
                 "packets: enumerated families + seeded samples" % (len(sweeps), sum(x["tuples"] for x in sweeps)))
    for p in parts:
        for ev in load_events(p)[:2000:400]:
            ctx.sample(case_of(ev))
    if not quick:
        binding_demo(ctx, pid, parts[0])
    return nviol, ndrift


def _cfg(ctx, name, tier, fams, lo, hi):
    p = os.path.join(ctx.workdir, name)
    open(p, "w").write('CONSTANTS\n  Tier = "%s"\n  Export = FALSE\n  Fams = {%s}\n  SliceLo = %d\n  SliceHi = %d\n'
                       'INIT Init\nNEXT Next\nINVARIANT Law\n' % (tier, ", ".join('"%s"' % f for f in fams), lo, hi))
    return p


def deep_model(ctx, pid, parallel=8, timeout=3000):
    """Model-only runs (no export) with the wide domains, as parallel single-worker TLC processes
    (initial-state enumeration is sequential in TLC, so the domains are sliced instead).
      C05: all 2^24 (b0,b1,b2) patterns of the 0.6 packet header, both vital chunk headers and the 0.7 packet
           header; all in-range field tuples of every header.
      C06: strings over the reduced alphabet up to length 4 behind every header prefix, single and double
           corruptions / truncations / extensions of the valid model packets."""
    jobs = []
    if pid == "C05":
        for tier in ("full6", "full7"):
            for lo in (0, 64, 128, 192):
                jobs.append(("all byte patterns %s, first byte %d..%d" % (tier, lo, lo + 63),
                             _cfg(ctx, "MC_%s_%d.cfg" % (tier, lo), tier, [], lo, lo + 63)))
        for lo in (0, 256, 512, 768):
            jobs.append(("all in-range header field tuples, slice %d..%d of ack/size/seq" % (lo, lo + 255),
                         _cfg(ctx, "MC_deep_hf_%d.cfg" % lo, "deep", ["hf"], lo, lo + 255)))
        jobs.append(("header byte patterns (deep boundary sets), packets", _cfg(ctx, "MC_deep_hb.cfg", "deep", ["hb", "rt", "ctrl", "tie", "wc"], 0, 1023)))
    else:
        for fam in ("short6", "short7", "cor6", "cor7", "heur6", "comp6", "comp7", "max6", "max7", "close",
                    "ctrlx6", "ctrlx7", "connless7", "tokreq7", "complim6", "complim7", "iter6", "iter7", "ncx6", "ncx7"):
            jobs.append(("reader totality / re-read law on the model: %s (deep)" % fam,
                         _cfg(ctx, "MC_deep_%s.cfg" % fam, "deep", [fam], 0, 1023)))
    import concurrent.futures as cf
    with cf.ThreadPoolExecutor(max_workers=parallel) as ex:
        futs = {ex.submit(core.run_tlc, "MC_Wire.tla", cfgp, SPECDIR, 1, timeout): label for label, cfgp in jobs}
        for f in cf.as_completed(futs):
            label = futs[f]
            r = f.result()
            ctx.add_states(r, "MC_Wire model only: " + label)
            if not r.ok:
                ctx.report("model:deep:%s" % label, "a law of Wire/Wire7 fails on the model (%s): %s" % (label, r.error or r.violated),
                           {"label": label, "tlc_tail": r.out[-3000:]})


def binding_demo(ctx, pid, path):
    """Corrupt one logged field / drop one logged field of a recorded event: WireTrace must reject."""
    evs = load_events(path)
    if not evs:
        return
    import copy
    target = None
    for ev in evs:
        if ev.get("k") in ("rt", "rd") and ev.get("out", ev.get("rd", {}).get("out", {})).get("r") == "ok":
            target = ev
            break
    if target is None:
        target = evs[0]
    a = copy.deepcopy(target)
    b = copy.deepcopy(target)
    if a.get("k") == "rt":
        a["wr"]["bytes"][0] ^= 0x40
        b["rd"]["out"]["p"]["ack"] = (b["rd"]["out"]["p"].get("ack", 0) + 1) % 1024
    elif a.get("k") == "rd":
        a["out"]["w"] = a["out"]["w"] + ["ControlFlags"]
        b["inb"] = False
    else:
        a["pk"]["bytes"][0] ^= 1
        b["un"]["w"] = ["PacketHeaderPadding"]
    p = os.path.join(ctx.workdir, "binding_demo.ndjson")
    open(p, "w").write(json.dumps(target) + "\n" + json.dumps(a) + "\n" + json.dumps(b) + "\n")
    res = validate(ctx, [p], parallel=1)
    bad = {pos for pos, _, _ in res[0][1]}
    ok = (2 in bad) and (3 in bad)
    ctx.add_run("binding demonstration: a corrupted logged field is rejected by WireTrace", rejected_positions=sorted(bad), ok=ok)
    if not ok:
        raise core.ToolError("binding demonstration failed: corrupted events were accepted (%s)" % sorted(bad))


def replay(ctx, pid, path):
    """Re-execute the cases of a replay file on the real code and judge them again."""
    obj = json.load(open(path))
    cases = obj.get("replay", {}).get("cases", [])
    bins = core.build_harness(["vh-wire"])
    ev = os.path.join(ctx.workdir, "replay.ndjson")
    r = subprocess.run([bins + "/vh-wire", "exec", ev], input="\n".join(json.dumps(c) for c in cases) + "\n",
                       stdout=subprocess.PIPE, stderr=subprocess.PIPE, text=True, timeout=300,
                       env=dict(os.environ, VH_BATCH="1"))
    hang = [l for l in r.stdout.splitlines() if l.startswith("HANG ")]
    if hang:
        hang_event(ctx, pid, hang[0][5:], "replay")
        return
    results = validate(ctx, [ev], parallel=1)
    nviol, ndrift = judge(ctx, pid, results, "replay")
    core.log("[replay] %d case(s): %d violating event(s), %d drift" % (len(cases), nviol, ndrift))
