"""Connection-layer component (C01-C04): configurations of spec/conn/ConnSys.tla,
model checking, export -> replay on the real code (direction A), recorded traces ->
TLC trace validation (direction B), property-level judgement of deviations."""
import concurrent.futures
import json
import os
import subprocess
import time

from checklib import core

SPECDIR = os.path.join(core.SPEC, "conn")


def cfg_text(c, export=False, liveness=False, invariants=True):
    def s(x):
        if isinstance(x, bool):
            return "TRUE" if x else "FALSE"
        if isinstance(x, (set, frozenset, list, tuple)):
            return "{" + ", ".join(s(y) for y in sorted(x, key=str)) + "}"
        if isinstance(x, str):
            return '"%s"' % x
        return str(x)
    lines = ["SPECIFICATION " + ("FairSpec" if liveness else "Spec"), "CONSTANTS"]
    for k in ("V7", "TokenMode", "SeqStart", "Sizes", "Senders", "MaxVital", "MaxNV", "MaxConnless",
              "MaxInFlight", "MaxFaults", "MaxClock", "MaxForge", "MaxDisc", "Reasons", "InitOnline"):
        lines.append("  %s = %s" % (k, s(c[k])))
    lines += ["CONSTRAINT Constr", "VIEW View"]
    if export:
        lines.append("ACTION_CONSTRAINT Export")
    else:
        if invariants:
            lines.append("INVARIANTS C01 C04 C02Deadline C03Tokens")
            lines.append("PROPERTIES C04Refusal C03Inert")
        if liveness:
            lines.append("PROPERTIES Progress")
    return "\n".join(lines) + "\n"


def base(**kw):
    c = dict(V7=False, TokenMode=True, SeqStart=0, Sizes={1}, Senders={"c"}, MaxVital=1, MaxNV=0,
             MaxConnless=0, MaxInFlight=2, MaxFaults=1, MaxClock=2, MaxForge=0, MaxDisc=0, Reasons={0},
             InitOnline=False)
    c.update(kw)
    return c


def mode_args(c):
    return ["--v7", "1" if c["V7"] else "0", "--token-mode", "1" if c["TokenMode"] else "0",
            "--seq-start", str(c["SeqStart"]), "--init-online", "1" if c["InitOnline"] else "0"]


def write_cfg(ctx, name, c, **kw):
    d = os.path.join(ctx.workdir, "cfg")
    os.makedirs(d, exist_ok=True)
    p = os.path.join(d, name + ".cfg")
    with open(p, "w") as fh:
        fh.write(cfg_text(c, **kw))
    return p


def model_check(ctx, name, c, workers=4, timeout=600, liveness=False):
    p = write_cfg(ctx, "MC_" + name, c, liveness=liveness)
    res = core.run_tlc("ConnSys.tla", p, cwd=SPECDIR, workers=workers, timeout=timeout, coverage=False, heap="8g")
    ctx.add_states(res, "ConnSys model check " + name + (" (liveness)" if liveness else ""))
    return res


def export_replay(ctx, bins, name, c, timeout=900, max_cand=60, suffix=60):
    """tlc ConnExp | vh-conn replay. Returns the replay summary (dict) or raises ToolError."""
    p = write_cfg(ctx, "Exp_" + name, c, export=True)
    cand = os.path.join(ctx.workdir, "cand_%s.ndjson" % name)
    cmd = [os.path.join(bins, "vh-conn"), "replay"] + mode_args(c) + ["--cand-out", cand, "--max-cand", str(max_cand),
                                                                    "--suffix", str(suffix)]
    t0 = time.time()
    res, rc, out = core.tlc_pipe("ConnExp.tla", p, cmd, cwd=SPECDIR, timeout=timeout)
    wall = time.time() - t0
    if rc == 97:
        # a call into the library did not return
        case = ""
        for line in out.splitlines():
            if line.startswith("HANG "):
                case = line[5:]
        return {"hang": True, "case": case, "name": name, "cfg": c, "wall_s": wall}
    if rc != 0:
        raise core.ToolError("vh-conn replay failed (rc=%s) for %s: %s" % (rc, name, out[-500:]))
    summary = json.loads(out.strip().splitlines()[-1])
    tail = "\n".join(summary.get("tlc_tail", []))
    if "Model checking completed" not in tail and "states generated" not in tail:
        raise core.ToolError("TLC export did not complete for %s: %s" % (name, tail[-800:]))
    summary["name"] = name
    summary["cfg"] = c
    summary["cand_file"] = cand
    summary["wall_s"] = wall
    core.log("[replay] %s: %d transitions, %d states, mismatches=%s, %.0fs" % (
        name, summary["transitions"], summary["states"], summary["mismatches"], wall))
    return summary


def run_parallel(jobs, max_workers):
    """jobs: list of (fn, args). Returns results in order (exceptions re-raised)."""
    with concurrent.futures.ThreadPoolExecutor(max_workers=max_workers) as ex:
        futs = [ex.submit(fn, *args) for fn, args in jobs]
        return [f.result() for f in futs]
