"""Connection-layer component (C01-C04): configurations of spec/conn/ConnSys.tla,
model checking, export -> replay on the real code (direction A), recorded traces ->
TLC trace validation (direction B), property-level judgement of deviations."""
import concurrent.futures
import json
import os
import subprocess
import time

from checklib import core

SPECDIR = os.path.join(core.SPEC, "conn")


def cfg_text(c, export=False, liveness=False, invariants=True):
    def s(x):
        if isinstance(x, bool):
            return "TRUE" if x else "FALSE"
        if isinstance(x, (set, frozenset, list, tuple)):
            return "{" + ", ".join(s(y) for y in sorted(x, key=str)) + "}"
        if isinstance(x, str):
            return '"%s"' % x
        return str(x)
    lines = ["SPECIFICATION " + ("FairSpec" if liveness else "Spec"), "CONSTANTS"]
    c = dict(c)
    c.setdefault("MaxVitalS", c["MaxVital"])
    for k in ("V7", "TokenMode", "SeqStart", "Sizes", "Senders", "MaxVital", "MaxVitalS", "MaxNV", "MaxConnless",
              "MaxInFlight", "MaxFaults", "MaxClock", "MaxForge", "MaxDisc", "Reasons", "InitOnline",
              "MaxFails", "FailKs", "MaxResets", "MaxAcceptTok"):
        lines.append("  %s = %s" % (k, s(c[k])))
    lines += ["CONSTRAINT Constr"]
    if not liveness:
        lines.append("VIEW View")      # TLC does not combine VIEW with liveness checking
    if export:
        lines.append("ACTION_CONSTRAINT Export")
    else:
        if invariants and not liveness:
            lines.append("INVARIANTS C01 C04 C02Deadline C03Tokens")
            lines.append("PROPERTIES C04Refusal C03Inert C03InertDeliver CallbackLoss ChannelSpec")
        if liveness:
            lines.append("INVARIANTS C02Deadline")
            lines.append("PROPERTIES Progress")
    return "\n".join(lines) + "\n"


def base(**kw):
    c = dict(V7=False, TokenMode=True, SeqStart=0, Sizes={1}, Senders={"c"}, MaxVital=1, MaxNV=0,
             MaxConnless=0, MaxInFlight=2, MaxFaults=1, MaxClock=2, MaxForge=0, MaxDisc=0, Reasons={0},
             InitOnline=False, MaxFails=0, FailKs=set(), MaxResets=0, MaxAcceptTok=0)
    c.update(kw)
    return c


def mode_args(c):
    return ["--v7", "1" if c["V7"] else "0", "--token-mode", "1" if c["TokenMode"] else "0",
            "--seq-start", str(c["SeqStart"]), "--init-online", "1" if c["InitOnline"] else "0"]


def write_cfg(ctx, name, c, **kw):
    d = os.path.join(ctx.workdir, "cfg")
    os.makedirs(d, exist_ok=True)
    p = os.path.join(d, name + ".cfg")
    with open(p, "w") as fh:
        fh.write(cfg_text(c, **kw))
    return p


def model_check(ctx, name, c, workers=4, timeout=600, liveness=False):
    p = write_cfg(ctx, "MC_" + name, c, liveness=liveness)
    res = core.run_tlc("ConnSys.tla", p, cwd=SPECDIR, workers=workers, timeout=timeout, coverage=False, heap="8g")
    ctx.add_states(res, "ConnSys model check " + name + (" (liveness)" if liveness else ""))
    return res


def export_replay(ctx, bins, name, c, timeout=900, max_cand=60, suffix=60):
    """tlc ConnExp | vh-conn replay. Returns the replay summary (dict) or raises ToolError."""
    p = write_cfg(ctx, "Exp_" + name, c, export=True)
    cand = os.path.join(ctx.workdir, "cand_%s.ndjson" % name)
    cmd = [os.path.join(bins, "vh-conn"), "replay"] + mode_args(c) + ["--cand-out", cand, "--max-cand", str(max_cand),
                                                                    "--suffix", str(suffix)]
    t0 = time.time()
    res, rc, out = core.tlc_pipe("ConnExp.tla", p, cmd, cwd=SPECDIR, timeout=timeout)
    wall = time.time() - t0
    if rc == 97:
        # a call into the library did not return
        case = ""
        for line in out.splitlines():
            if line.startswith("HANG "):
                case = line[5:]
        return {"hang": True, "case": case, "name": name, "cfg": c, "wall_s": wall}
    if rc != 0:
        raise core.ToolError("vh-conn replay failed (rc=%s) for %s: %s" % (rc, name, out[-500:]))
    summary = json.loads(out.strip().splitlines()[-1])
    tail = "\n".join(summary.get("tlc_tail", []))
    if "Model checking completed" not in tail and "states generated" not in tail:
        raise core.ToolError("TLC export did not complete for %s: %s" % (name, tail[-800:]))
    summary["name"] = name
    summary["cfg"] = c
    summary["cand_file"] = cand
    summary["wall_s"] = wall
    core.log("[replay] %s: %d transitions, %d states, mismatches=%s, %.0fs" % (
        name, summary["transitions"], summary["states"], summary["mismatches"], wall))
    return summary


def run_parallel(jobs, max_workers):
    """jobs: list of (fn, args). Returns results in order (exceptions re-raised)."""
    with concurrent.futures.ThreadPoolExecutor(max_workers=max_workers) as ex:
        futs = [ex.submit(fn, *args) for fn, args in jobs]
        return [f.result() for f in futs]


# ----------------------------------------------------------------------------- judgement

PROP_OF_REASON = (("C01:", "C01"), ("C03:", "C03"), ("C02:", "C02"), ("C04/C02:", "C04"), ("C04:", "C04"))


def reason_property(why):
    for pre, p in PROP_OF_REASON:
        if why.startswith(pre):
            return p
    return "C04"


def judge_trace(trace_path, timeout=600):
    """Run ChannelTrace on an observable trace (many runs, each starting with a reset line).
    Returns (number of runs, list of {run, line, why})."""
    ok, res = core.validate_trace("ChannelTrace.tla", "ChannelTrace.cfg", trace_path, cwd=SPECDIR, timeout=timeout)
    verdict = None
    for line in res.out.splitlines():
        if line.startswith('<<"VERDICT"'):
            s = line[line.index(',') + 1:].strip()
            s = s[:s.rindex('>>')].strip()
            verdict = json.loads(json.loads(s))
    if verdict is None or not ok:
        raise core.ToolError("ChannelTrace did not produce a verdict: %s" % res.out[-1500:])
    return verdict["runs"], verdict["bad"], res


def judge_summary(ctx, summary, prop):
    """Decide what the deviations found by a replay mean for property `prop`.
    Returns number of violations reported for prop."""
    mode = {k: summary["cfg"][k] for k in ("V7", "TokenMode", "SeqStart", "InitOnline")}
    if summary.get("hang"):
        case = summary.get("case", "")
        try:
            case = json.loads(case)
        except Exception:
            pass
        if prop == "C02":
            ctx.report("hang:%s" % summary["name"], "C02: a call into the connection layer did not return (watchdog)",
                       {"mode": mode, "schedule": case})
            return 1
        ctx.report_drift("exploration of %s cut short: a call into the library did not return (decided by C02)" % summary["name"])
        return 0
    cands = summary.get("candidates", [])
    if not cands:
        return 0
    nruns, bad, res = judge_trace(summary["cand_file"])
    ctx.coverage["traces_validated_against_impl"] += nruns
    badruns = {}
    for b in bad:
        badruns.setdefault(b["run"], []).append(b)
    nviol = 0
    for i, c in enumerate(cands, start=1):
        bs = badruns.get(i)
        if not bs:
            ctx.report_drift("%s: code deviates from the detailed spec (%s %s) but the property-level spec accepts the run: %s"
                             % (summary["name"], c["class"], c["field"], json.dumps(c["path"])[:300]))
            continue
        for b in bs:
            p = reason_property(b["why"])
            if p == prop:
                first = c["path"][-1].get("a", "?") if c["path"] else "?"
                key = "%s|%s|%s|%s" % (b["why"][:60], "v7" if mode["V7"] else ("v6tok" if mode["TokenMode"] else "v6plain"), c["class"], first)
                seen = ctx.__dict__.setdefault("_seen_keys", {})
                seen[key] = seen.get(key, 0) + 1
                if seen[key] > 2:
                    continue        # same finding reached by another schedule: two replay files per key are enough
                if ctx.report(key, b["why"], {"mode": mode, "path": c["path"], "expected": c["expected"], "got": c["got"]}):
                    nviol += 1
            else:
                notes = ctx.__dict__.setdefault("_noted", set())
                k = (summary["name"], p, b["why"][:60])
                if k not in notes:
                    notes.add(k)
                    ctx.note("%s: a run violates %s (%s); reported by that property's check" % (summary["name"], p, b["why"][:80]))
    return nviol


def account(ctx, summary):
    if summary.get("hang"):
        return
    ctx.coverage["transitions"] += summary["transitions"]
    ctx.coverage["states"] += summary["states"]
    ctx.coverage["evaluations"] += summary["transitions"]
    ctx.coverage["distinct_nontrivial"] += summary["states"]
    ctx.add_run("export+replay " + summary["name"], transitions=summary["transitions"], states=summary["states"],
                mismatches=summary["mismatches"], actions=summary["actions"], wall_s=round(summary["wall_s"], 1),
                constants={k: (sorted(v) if isinstance(v, (set, frozenset)) else v) for k, v in summary["cfg"].items()})
    for s in summary.get("samples", [])[:2]:
        ctx.sample({"config": summary["name"], "schedule": s["schedule"], "result": s["result"]})


def replay_file(ctx, prop, path):
    """./check <ID> --replay <file>: re-execute the stored schedule on the real code and re-judge it."""
    rep = json.load(open(path))["replay"]
    bins = core.build_harness(["vh-conn"])
    mode = rep["mode"]
    sched = rep.get("path") or (rep.get("schedule") or {}).get("path", [])
    if isinstance(rep.get("schedule"), dict) and "act" in rep["schedule"]:
        sched = sched + [rep["schedule"]["act"]]
    f = os.path.join(ctx.workdir, "replay_schedule.json")
    json.dump({"path": sched}, open(f, "w"))
    cmd = [os.path.join(bins, "vh-conn"), "schedule", "--file", f, "--suffix", "120",
           "--v7", "1" if mode["V7"] else "0", "--token-mode", "1" if mode["TokenMode"] else "0",
           "--seq-start", str(mode["SeqStart"]), "--init-online", "1" if mode["InitOnline"] else "0"]
    rc, out = core.run_harness(cmd, timeout=120)
    if rc == 97:
        ctx.report("hang:replay", "C02: a call into the connection layer did not return (watchdog)", rep)
        return
    tr = os.path.join(ctx.workdir, "replay_obs.ndjson")
    open(tr, "w").write(out)
    nruns, bad, res = judge_trace(tr)
    ctx.coverage["traces_validated_against_impl"] += nruns
    ctx.coverage["evaluations"] += len(sched)
    ctx.coverage["distinct_nontrivial"] += 2
    ctx.sample({"schedule": sched})
    for b in bad:
        ctx.report("replay|" + b["why"][:60], b["why"], rep)


# ----------------------------------------------------------------------------- direction B

def mode_name(c):
    return "v7" if c["V7"] else ("v6tok" if c["TokenMode"] else "v6plain")


MODES = {
    "v6tok": dict(V7=False, TokenMode=True, SeqStart=0, InitOnline=False),
    "v6plain": dict(V7=False, TokenMode=False, SeqStart=0, InitOnline=False),
    "v7": dict(V7=True, TokenMode=True, SeqStart=0, InitOnline=False),
    "v6wrap": dict(V7=False, TokenMode=True, SeqStart=900, InitOnline=True),
    "v7wrap": dict(V7=True, TokenMode=True, SeqStart=900, InitOnline=True),
}

TRACE_CFG = """SPECIFICATION TraceSpec
CONSTANTS
  V7 = %(V7)s
  TokenMode = %(TokenMode)s
  SeqStart = %(SeqStart)s
  Sizes = {1}
  Senders = {"c", "s"}
  MaxVital = 1000000
  MaxVitalS = 1000000
  MaxNV = 1000000
  MaxConnless = 1000000
  MaxInFlight = 1000000
  MaxFaults = 1000000
  MaxClock = 1000000
  MaxForge = 1000000
  MaxDisc = 1000000
  Reasons = {0}
  InitOnline = %(InitOnline)s
  MaxFails = 1000000
  FailKs = {1, 2, 3}
  MaxResets = 1000000
  MaxAcceptTok = 1000000
VIEW TraceView
INVARIANTS C01 C04 C02Deadline C03Tokens
POSTCONDITION TraceAccepted
"""


def drive_and_validate(ctx, bins, prop, mname, scenario, seed, events, extra=None):
    """Record a trace of the real code and validate it against ConnSys (strict); if the strict spec
    rejects it, judge the observable behaviour of the same schedule with ChannelTrace.
    Returns dict(accepted, lines, violations)."""
    m = MODES[mname]
    tag = "%s_%s_%d" % (mname, scenario, seed)
    tr = os.path.join(ctx.workdir, "trace_%s.ndjson" % tag)
    cmd = [os.path.join(bins, "vh-conn"), "drive"] + mode_args(m) + ["--scenario", scenario, "--seed", str(seed),
                                                                     "--events", str(events), "--out", tr] + (extra or [])
    t0 = time.time()
    rc, out = core.run_harness(cmd, timeout=600)
    hang = rc == 97
    if rc not in (0, 97):
        raise core.ToolError("vh-conn drive failed rc=%s" % rc)
    lines = core.read_ndjson(tr) if os.path.exists(tr) else []
    acts = [l["act"] for l in lines]
    result = {"tag": tag, "lines": len(lines), "accepted": False, "violations": 0, "hang": hang}
    replay_obj = {"mode": m, "path": acts, "scenario": scenario, "seed": seed}
    if hang:
        hact = None
        for line in out.splitlines():
            if line.startswith("HANG "):
                try:
                    hact = json.loads(line[5:])
                except Exception:
                    pass
        if hact is not None:
            replay_obj["path"] = acts + [hact]
        if prop == "C02":
            ctx.report("hang:drive:%s:%s" % (mname, scenario), "C02: a call into the connection layer did not return (watchdog)", replay_obj)
            result["violations"] += 1
        else:
            ctx.report_drift("trace %s cut short: a call into the library did not return (decided by C02)" % tag)
    accepted = False
    if lines and not hang:
        cfgp = os.path.join(ctx.workdir, "Trace_%s.cfg" % tag)
        open(cfgp, "w").write(TRACE_CFG % {k: ("TRUE" if v is True else "FALSE" if v is False else v) for k, v in m.items()})
        ok, res = core.validate_trace("ConnTrace.tla", cfgp, tr, cwd=SPECDIR, timeout=900, heap="4g")
        ctx.coverage["traces_validated_against_impl"] += 1
        if res.violated:
            # an invariant of ConnSys fails on the implementation's own execution
            p = {"C01": "C01", "C04": "C04", "C02Deadline": "C02", "C03Tokens": "C03"}.get(res.violated, "C04")
            if p == prop:
                ctx.report("trace-invariant:%s:%s:%s" % (res.violated, mname, scenario),
                           "invariant %s violated on a recorded trace of the real code" % res.violated, replay_obj)
                result["violations"] += 1
        accepted = ok
        ctx.coverage["evaluations"] += len(lines)
        ctx.coverage["states"] += res.distinct
        ctx.coverage["transitions"] += res.generated
    result["accepted"] = accepted
    if not accepted and lines:
        # property-level judgement of the same schedule (prefix up to the hang, if any)
        f = os.path.join(ctx.workdir, "sched_%s.json" % tag)
        json.dump({"path": acts}, open(f, "w"))
        cmd = [os.path.join(bins, "vh-conn"), "schedule", "--file", f, "--suffix", "0" if hang else "150"] + mode_args(m)
        rc2, out2 = core.run_harness(cmd, timeout=600)
        if rc2 == 0:
            ob = os.path.join(ctx.workdir, "obs_%s.ndjson" % tag)
            open(ob, "w").write(out2)
            nruns, bad, _ = judge_trace(ob)
            ctx.coverage["traces_validated_against_impl"] += nruns
            if not bad:
                ctx.report_drift("trace %s deviates from the detailed spec but is accepted by the property-level spec" % tag)
            for b in bad:
                p = reason_property(b["why"])
                if p == prop:
                    # cut the schedule at the offending line (line 1 is the reset)
                    cut = max(1, b["line"] - 1)
                    ro = dict(replay_obj, path=acts[:cut])
                    if ctx.report("%s|%s|%s" % (b["why"][:60], mname, scenario), b["why"], ro):
                        result["violations"] += 1
                else:
                    ctx.note("trace %s violates %s (%s); reported by that property's check" % (tag, p, b["why"][:80]))
        elif rc2 == 97 and prop == "C02" and not hang:
            ctx.report("hang:schedule:%s:%s" % (mname, scenario), "C02: a call did not return (watchdog)", replay_obj)
            result["violations"] += 1
    ctx.add_run("trace " + tag, events=len(lines), accepted_by_ConnTrace=accepted, hang=hang, wall_s=round(time.time() - t0, 1))
    if lines:
        ctx.sample({"trace": tag, "first_events": acts[:6]}, limit=8)
    return result


# ----------------------------------------------------------------------------- plans

B = base


def plans(prop, tier):
    q = tier == "quick"
    mc, ex, dr, live = [], [], [], []
    if prop == "C01":
        mc = [("v6tok", B(MaxVital=1, MaxNV=1, MaxFaults=1, MaxClock=2)),
              ("v6plain", B(TokenMode=False, MaxVital=1, MaxNV=1, MaxFaults=1, MaxClock=2)),
              ("v7", B(V7=True, MaxVital=1, MaxNV=1, MaxFaults=1, MaxClock=2))]
        ex = [("v6tok-2vital", B(MaxVital=2, MaxFaults=1, MaxClock=1)),
              ("v6tok-both", B(Senders={"c", "s"}, MaxVital=1, MaxFaults=1, MaxClock=1)),
              ("v6plain-2vital", B(TokenMode=False, MaxVital=2, MaxFaults=1, MaxClock=1)),
              ("v7-2vital", B(V7=True, MaxVital=2, MaxFaults=1, MaxClock=1)),
              ("v6tok-wrap", B(InitOnline=True, SeqStart=1022, MaxVital=2, MaxFaults=1, MaxClock=1)),
              ("v7-wrap", B(V7=True, InitOnline=True, SeqStart=1022, MaxVital=2, MaxFaults=1, MaxClock=1)),
              # the accepting side sends three vital chunks (a reset of its sequence numbers shows as a skipped chunk)
              ("v7-sback", B(V7=True, Senders={"c", "s"}, MaxVital=1, MaxVitalS=3, MaxFaults=1, MaxClock=0)),
              ("v6tok-sback", B(Senders={"c", "s"}, MaxVital=1, MaxVitalS=3, MaxFaults=1, MaxClock=0)),
              # a side that has a resend request pending sends a compressible (even-sized) chunk itself
              ("v7-rr-compress", B(V7=True, Senders={"c", "s"}, Sizes={40}, MaxVital=2, MaxVitalS=1, MaxNV=0, MaxFaults=1, MaxClock=0)),
              ("v6tok-rr-compress", B(Senders={"c", "s"}, Sizes={40}, MaxVital=2, MaxVitalS=1, MaxNV=0, MaxFaults=1, MaxClock=0))]
        # the send callback refuses a datagram (= a lost datagram): connect request, handshake answers, flushes, ticks
        ex += [("v6tok-cbfail", B(MaxVital=2, MaxFaults=0, MaxClock=1, MaxFails=1, FailKs={1})),
               ("v7-cbfail", B(V7=True, MaxVital=2, MaxFaults=0, MaxClock=1, MaxFails=1, FailKs={1})),
               # a zero-length chunk and another chunk in one datagram
               ("v7-zero", B(V7=True, Sizes={0, 1}, MaxVital=2, MaxNV=1, MaxFaults=0, MaxClock=0)),
               ("v6tok-zero", B(Sizes={0, 1}, MaxVital=2, MaxNV=1, MaxFaults=0, MaxClock=0))]
        dr = [(m, "random", 1, 400) for m in ("v6tok", "v6plain", "v7")] + [(m, "repack", 1, 0) for m in ("v6tok", "v7")] + \
             [(m, "sessions", 3, 300) for m in ("v6tok", "v7")]
        if not q:
            mc += [("v6tok-L", B(Senders={"c", "s"}, MaxVital=1, MaxNV=0, MaxFaults=2, MaxClock=2, MaxInFlight=2)),
                   ("v7-L", B(V7=True, MaxVital=2, MaxNV=1, MaxFaults=2, MaxClock=2)),
                   ("v6tok-wrap-L", B(InitOnline=True, SeqStart=1021, MaxVital=3, MaxFaults=2, MaxClock=2))]
            ex += [("v6tok-nv", B(MaxVital=1, MaxNV=1, MaxFaults=1, MaxClock=2)),
                   ("v7-nv", B(V7=True, MaxVital=1, MaxNV=1, MaxFaults=1, MaxClock=2)),
                   ("v6plain-nv", B(TokenMode=False, MaxVital=1, MaxNV=1, MaxFaults=1, MaxClock=2)),
                   ("v7-both", B(V7=True, Senders={"c", "s"}, MaxVital=1, MaxFaults=1, MaxClock=1)),
                   ("v7-wrap-clock", B(V7=True, InitOnline=True, SeqStart=1021, MaxVital=3, MaxFaults=1, MaxClock=1)),
                   ("v6plain-wrap", B(TokenMode=False, InitOnline=True, SeqStart=1022, MaxVital=2, MaxFaults=1, MaxClock=1)),
                   ("v6tok-3inflight", B(MaxVital=2, MaxFaults=1, MaxClock=1, MaxInFlight=3)),
                   ("v7-sback-clock", B(V7=True, Senders={"c", "s"}, MaxVital=1, MaxVitalS=3, MaxFaults=1, MaxClock=1)),
                   ("v6plain-sback-clock", B(TokenMode=False, Senders={"c", "s"}, MaxVital=1, MaxVitalS=3, MaxFaults=1, MaxClock=1))]
            mc += [("v6tok-cbfail-L", B(MaxVital=1, MaxNV=1, MaxFaults=1, MaxClock=1, MaxFails=2, FailKs={1})),
                   ("v7-cbfail-L", B(V7=True, MaxVital=1, MaxNV=1, MaxFaults=1, MaxClock=1, MaxFails=2, FailKs={1}))]
            ex += [("v6plain-cbfail", B(TokenMode=False, MaxVital=2, MaxFaults=0, MaxClock=1, MaxFails=1, FailKs={1})),
                   ("v6tok-cbfail2", B(MaxVital=1, MaxFaults=1, MaxClock=1, MaxFails=2, FailKs={1}))]
            dr = [(m, "random", s, 1500) for m in ("v6tok", "v6plain", "v7", "v6wrap", "v7wrap") for s in (1, 2, 3)] + \
                 [(m, "repack", s, 0) for m in ("v6tok", "v6plain", "v7", "v6wrap") for s in (1, 2)] + \
                 [(m, "sessions", s, 1200) for m in ("v6tok", "v7") for s in (3, 4)]
    elif prop == "C02":
        live = [("v6tok-live", B(MaxVital=1, MaxFaults=1, MaxClock=1)),
                ("v7-live", B(V7=True, MaxVital=1, MaxFaults=1, MaxClock=1)),
                ("v6plain-live", B(TokenMode=False, MaxVital=1, MaxFaults=1, MaxClock=1))]
        ex = [("v6tok-max", B(Sizes={1023}, MaxVital=2, MaxFaults=1, MaxClock=1)),
              ("v7-max", B(V7=True, Sizes={1387}, MaxVital=2, MaxFaults=1, MaxClock=1)),
              ("v7-over", B(V7=True, Sizes={1388, 1390}, MaxVital=1, MaxFaults=1, MaxClock=1)),
              ("v6tok-over", B(Sizes={1024, 1390}, MaxVital=1, MaxFaults=0, MaxClock=1)),
              # a backlog of unacknowledged chunks that spans the 10-bit wrap (1022, 1023, 0) must be acknowledged
              ("v6tok-wrap-backlog", B(InitOnline=True, SeqStart=1021, MaxVital=3, MaxFaults=0, MaxClock=1)),
              ("v7-wrap-backlog", B(V7=True, InitOnline=True, SeqStart=1021, MaxVital=3, MaxFaults=0, MaxClock=1))]
        # callbacks fail in the unstable prefix and succeed in the fair suffix: progress all the same
        live += [("v6tok-live-cbfail", B(MaxVital=1, MaxFaults=0, MaxClock=1, MaxFails=1, FailKs={1})),
                 ("v7-live-cbfail", B(V7=True, MaxVital=1, MaxFaults=0, MaxClock=1, MaxFails=1, FailKs={1}))]
        dr = [(m, "bigchunks", 1, 0) for m in ("v6tok", "v7")] + [("v7", "random", 1, 400)] + \
             [(m, "random", 2, 300) for m in ("v6wrap", "v7wrap")] + [(m, "cbfail", 1, 0) for m in ("v6tok", "v7")]
        if not q:
            live += [("v6tok-live-L", B(MaxVital=2, MaxNV=1, MaxFaults=1, MaxClock=2)),
                     ("v7-live-L", B(V7=True, MaxVital=2, MaxFaults=1, MaxClock=2))]
            ex += [("v6tok-max-nv", B(Sizes={1, 1023}, MaxVital=2, MaxNV=1, MaxFaults=1, MaxClock=1)),
                   ("v7-max-both", B(V7=True, Sizes={1387}, Senders={"c", "s"}, MaxVital=1, MaxFaults=1, MaxClock=2)),
                   ("v6plain-max", B(TokenMode=False, Sizes={1023}, MaxVital=2, MaxFaults=1, MaxClock=2))]
            live += [("v7-live-sessions", B(V7=True, MaxVital=1, MaxFaults=1, MaxClock=0, MaxDisc=1, MaxResets=2))]
            # a resend that spans three datagrams, the callback refusing the first or the second of them
            ex += [("v6tok-resend-cbfail", B(InitOnline=True, Sizes={1023}, MaxVital=3, MaxFaults=0, MaxClock=2, MaxFails=2, FailKs={1, 2}, MaxInFlight=2))]
            dr = [(m, "bigchunks", 1, 0) for m in ("v6tok", "v6plain", "v7")] + [(m, "cbfail", 1, 0) for m in ("v6tok", "v6plain", "v7")] + \
                 [(m, "random", s, 1500) for m in ("v6tok", "v6plain", "v7") for s in (11, 12)]
    elif prop == "C03":
        mc = [("v6tok-forge", B(MaxForge=1, MaxVital=1, MaxFaults=1, MaxClock=1)),
              ("v7-forge", B(V7=True, MaxForge=1, MaxVital=1, MaxFaults=1, MaxClock=1))]
        ex = [("v6tok-forge", B(MaxForge=1, MaxVital=1, MaxFaults=0, MaxClock=1)),
              ("v7-forge", B(V7=True, MaxForge=1, MaxVital=1, MaxFaults=0, MaxClock=1)),
              ("v7-forge-disc", B(V7=True, MaxForge=1, MaxVital=0, MaxFaults=0, MaxClock=0, MaxDisc=1))]
        # sessions: reset() and reconnect on the same objects with datagrams of the old session still in flight
        mc += [("v6tok-sessions", B(MaxVital=1, MaxFaults=1, MaxClock=0, MaxDisc=1, MaxResets=2)),
               ("v7-sessions", B(V7=True, MaxVital=1, MaxFaults=1, MaxClock=0, MaxDisc=1, MaxResets=2))]
        ex += [("v6tok-sessions", B(MaxVital=1, MaxFaults=1, MaxClock=0, MaxDisc=1, MaxResets=2)),
               ("v7-sessions", B(V7=True, MaxVital=1, MaxFaults=1, MaxClock=0, MaxDisc=1, MaxResets=2))]
        dr = [(m, "random", 5, 500) for m in ("v6tok", "v7")] + [(m, "sessions", 6, 300) for m in ("v6tok", "v7")]
        if not q:
            mc += [("v6tok-forge-L", B(MaxForge=1, MaxVital=2, MaxNV=1, MaxFaults=1, MaxClock=2)),
                   ("v7-forge-L", B(V7=True, MaxForge=2, MaxVital=1, MaxFaults=1, MaxClock=2))]
            ex += [("v6tok-forge2", B(MaxForge=2, MaxVital=1, MaxFaults=0, MaxClock=1)),
                   ("v7-forge-both", B(V7=True, MaxForge=1, Senders={"c", "s"}, MaxVital=1, MaxFaults=0, MaxClock=1)),
                   ("v6tok-forge-wrap", B(MaxForge=1, InitOnline=True, SeqStart=1023, MaxVital=1, MaxFaults=0, MaxClock=1))]
            dr = [(m, "random", s, 1500) for m in ("v6tok", "v7") for s in (5, 6, 7)]
    elif prop == "C04":
        mc = [("v6tok-sizes", B(Sizes={1023, 1024}, MaxVital=1, MaxNV=1, MaxFaults=0, MaxClock=1)),
              ("v7-sizes", B(V7=True, Sizes={1387, 1388}, MaxVital=1, MaxNV=1, MaxFaults=0, MaxClock=1)),
              ("v6tok-disc", B(Sizes={0}, MaxVital=1, MaxConnless=1, MaxDisc=1, Reasons={0, 127}, MaxFaults=0, MaxClock=1))]
        if not q:
            mc += [("v6tok-sizes-L", B(Sizes={0, 1023, 1024}, MaxVital=1, MaxNV=1, MaxFaults=0, MaxClock=1, MaxConnless=1, MaxDisc=1, Reasons={0, 127})),
                   ("v7-sizes-L", B(V7=True, Sizes={0, 1387, 1388}, MaxVital=1, MaxNV=1, MaxFaults=0, MaxClock=1, MaxConnless=1, MaxDisc=1, Reasons={0, 127}))]
        ex = [("v6tok-limits", B(Sizes={1023, 1024}, MaxVital=1, MaxNV=1, MaxFaults=0, MaxClock=1)),
              ("v7-limits", B(V7=True, Sizes={1387, 1388}, MaxVital=1, MaxNV=1, MaxFaults=0, MaxClock=1)),
              ("v6plain-disc", B(TokenMode=False, Sizes={0}, MaxVital=1, MaxConnless=1, MaxFaults=0, MaxClock=1, MaxDisc=1, Reasons={0, 127})),
              ("v7-disc", B(V7=True, Sizes={0, 1390, 1391}, MaxVital=0, MaxConnless=1, MaxFaults=0, MaxClock=1, MaxDisc=1, Reasons={0, 127}))]
        # two chunks that fill a packet exactly (3+692 + 3+692 = 1390) or overshoot by one byte
        ex += [("v6tok-fill", B(Sizes={692, 693}, MaxVital=2, MaxNV=0, MaxFaults=0, MaxClock=1)),
               ("v7-fill", B(V7=True, Sizes={692, 693}, MaxVital=2, MaxNV=0, MaxFaults=0, MaxClock=1))]
        # the 10-bit sequence number wraps (1022 -> 1023 -> 0): headers must stay encodable
        ex += [("v6tok-wrap", B(InitOnline=True, SeqStart=1022, MaxVital=2, MaxFaults=0, MaxClock=1)),
               ("v7-wrap", B(V7=True, InitOnline=True, SeqStart=1022, MaxVital=2, MaxFaults=0, MaxClock=1)),
               # every flag combination on compressible payloads: a side with a resend request pending sends data
               ("v7-rr-compress", B(V7=True, Senders={"c", "s"}, Sizes={40}, MaxVital=2, MaxVitalS=1, MaxNV=0, MaxFaults=1, MaxClock=0)),
               ("v6tok-rr-compress", B(Senders={"c", "s"}, Sizes={40}, MaxVital=2, MaxVitalS=1, MaxNV=0, MaxFaults=1, MaxClock=0))]
        # close / connless while the callback refuses the datagram; Connection::new_accept_token
        ex += [("v6tok-disc-cbfail", B(Sizes={0}, MaxVital=1, MaxConnless=1, MaxDisc=1, Reasons={0, 127}, MaxFaults=0, MaxClock=0, MaxFails=1, FailKs={1})),
               ("v7-disc-cbfail", B(V7=True, Sizes={0}, MaxVital=1, MaxConnless=1, MaxDisc=1, Reasons={0, 127}, MaxFaults=0, MaxClock=0, MaxFails=1, FailKs={1})),
               ("v6tok-accepttoken", B(MaxVital=1, MaxFaults=1, MaxClock=1, MaxAcceptTok=1))]
        dr = [(m, sc, 1, 0) for m in ("v6tok", "v7") for sc in ("smallchunks", "bigchunks", "fill")]
        if not q:
            ex += [("v6tok-limits-faults", B(Sizes={0, 1023}, MaxVital=2, MaxNV=1, MaxFaults=1, MaxClock=1)),
                   ("v7-limits-faults", B(V7=True, Sizes={0, 1387}, MaxVital=2, MaxNV=1, MaxFaults=1, MaxClock=1)),
                   ("v6tok-connless", B(Sizes={0, 1390, 1391}, MaxVital=0, MaxConnless=2, MaxFaults=0, MaxClock=1, MaxDisc=1, Reasons={1, 126}))]
            dr = [(m, sc, 1, 0) for m in ("v6tok", "v6plain", "v7") for sc in ("smallchunks", "bigchunks", "fill")] + \
                 [(m, "random", s, 1500) for m in ("v6tok", "v6plain", "v7") for s in (21, 22)]
    return mc, live, ex, dr


def run_property(ctx, prop):
    bins = core.build_harness(["vh-conn"])
    mc, live, ex, dr = plans(prop, ctx.tier)
    par = 6 if ctx.tier == "quick" else 8
    ctx.coverage["rule"] = ("model checking of ConnSys (TLC, all interleavings within the listed constants); every generated "
                            "transition of the export configurations replayed on two real Connections with the complete projected "
                            "state compared (distinct = distinct spec states reached on the real code); recorded traces of seeded "
                            "drivers validated line by line against ConnSys (ConnTrace); deviations judged by the property-level "
                            "spec ChannelTrace")
    ctx.assumptions += ["the application drains every event iterator", "fewer than 512 vital chunks unacknowledged",
                        "no datagram delayed across 1024 sequence numbers", "callers only make calls the state permits",
                        "verif hook projection (connection::verif) is faithful to the private state"]
    # 1. the model itself
    th = ctx.tier == "thorough"
    jobs = [(model_check, (ctx, n, c, 6 if th else 3, 3000 if th else 1200, False)) for n, c in mc]
    jobs += [(model_check, (ctx, n, c, 6 if th else 3, 3000 if th else 1200, True)) for n, c in live]
    for (n, c), res in zip(mc + live, run_parallel(jobs, 3 if th else 4)):
        if not res.ok:
            ctx.report("model:%s:%s" % (n, res.violated or "error"),
                       "the specification itself violates %s: %s" % (res.violated, (res.error or res.out[-1500:])),
                       {"config": n, "constants": {k: str(v) for k, v in c.items()}, "tlc": res.out[-3000:]})
    # 2. direction A
    sums = run_parallel([(export_replay, (ctx, bins, n, c, 3000 if ctx.tier == "thorough" else 600)) for n, c in ex], par)
    for s in sums:
        account(ctx, s)
        judge_summary(ctx, s, prop)
    # 3. direction B
    results = run_parallel([(drive_and_validate, (ctx, bins, prop, m, sc, ctx.seed * 1000 + sd, ev)) for m, sc, sd, ev in dr], par)
    ctx.coverage["exhaustive"] = False
    if ctx.tier == "thorough" and prop == "C01":
        binding_demo(ctx, bins)
    return sums, results


def binding_demo(ctx, bins):
    """Self-test of the binding (thorough tier): a recorded trace is accepted; the same trace with one
    logged field corrupted, and with one event dropped, must be rejected by ConnTrace."""
    m = MODES["v6tok"]
    tr = os.path.join(ctx.workdir, "demo_trace.ndjson")
    cmd = [os.path.join(bins, "vh-conn"), "drive"] + mode_args(m) + ["--scenario", "random", "--seed", "77", "--events", "150", "--out", tr]
    rc, out = core.run_harness(cmd, timeout=300)
    if rc != 0:
        raise core.ToolError("binding demo: drive failed")
    cfgp = os.path.join(ctx.workdir, "Trace_demo.cfg")
    open(cfgp, "w").write(TRACE_CFG % {k: ("TRUE" if v is True else "FALSE" if v is False else v) for k, v in m.items()})
    lines = open(tr).read().splitlines()
    results = {}

    def run(name, ls):
        p = os.path.join(ctx.workdir, "demo_%s.ndjson" % name)
        open(p, "w").write("\n".join(ls) + "\n")
        ok, res = core.validate_trace("ConnTrace.tla", cfgp, p, cwd=SPECDIR, timeout=600, heap="4g")
        results[name] = ok
        return ok
    run("original", lines)
    # corrupt: add 1 ms to the send timer of the client in the middle of the trace
    k = len(lines) // 2
    rec = json.loads(lines[k])
    t = rec["st"]["ep"]["c"]["sendT"]
    rec["st"]["ep"]["c"]["sendT"] = (t + 1) if t >= 0 else 7
    run("timer_plus_1ms", lines[:k] + [json.dumps(rec)] + lines[k + 1:])
    # corrupt: flip the vital flag of the first delivered chunk event
    for i, l in enumerate(lines):
        r = json.loads(l)
        evs = r["out"]["evs"]
        if evs and evs[0].get("e") == "chunk":
            evs[0]["v"] = not evs[0]["v"]
            run("vital_flag_flipped", lines[:i] + [json.dumps(r)] + lines[i + 1:])
            break
    # drop one deliver event
    for i, l in enumerate(lines):
        if json.loads(l)["act"]["a"] == "deliver":
            run("deliver_dropped", lines[:i] + lines[i + 1:])
            break
    ctx.coverage["binding_demo"] = results
    bad = [n for n, ok in results.items() if (n == "original") != ok]
    if bad:
        raise core.ToolError("binding demonstration failed: %s" % results)
    return results
