"""Shared machinery of the /verif checks.

Every property check is a module checklib/props/<ID>.py exposing run(ctx).
The driver (/verif/check) creates a Ctx, calls run(ctx) and then ctx.finish().

Exit codes: 0 property held on everything explored (KNOWN-FINDING lines allowed),
            1 violation (line "VIOLATION property=<id> replay=<path>"),
            2 tool failure (build error, TLC crash, time-out of the tooling).
"""
import hashlib
import json
import os
import re
import shutil
import subprocess
import sys
import time

VERIF = os.path.dirname(os.path.dirname(os.path.abspath(__file__)))
SPEC = os.path.join(VERIF, "spec")
HARNESS = os.path.join(VERIF, "harness")
WORK = os.path.join(VERIF, "work")
EVIDENCE = os.path.join(VERIF, "evidence")
REPLAYS = os.path.join(WORK, "replays")
TLA_CP = "/opt/veriftools/tla/tla2tools.jar:/opt/veriftools/tla/CommunityModules-deps.jar"
NCPU = os.cpu_count() or 4


class ToolError(Exception):
    """The tooling itself failed (not a verdict about the code)."""


def log(*a):
    print(*a, file=sys.stderr, flush=True)


def repo_root():
    return os.path.abspath(os.environ.get("VERIF_REPO", "/repo"))


def _harness_dir():
    """Harness workspace to build. For the default /repo it is /verif/harness
    itself; for VERIF_REPO=<other> a shadow workspace with rewritten path
    dependencies (own target dir) is generated under work/alt-<hash>/."""
    root = repo_root()
    if root == "/repo":
        return HARNESS
    h = hashlib.sha1(root.encode()).hexdigest()[:10]
    alt = os.path.join(WORK, "alt-" + h)
    os.makedirs(alt, exist_ok=True)
    for name in ("Cargo.lock",):
        if not os.path.exists(os.path.join(alt, name)):
            shutil.copy(os.path.join(HARNESS, name), os.path.join(alt, name))
    shutil.copy(os.path.join(HARNESS, "Cargo.toml"), os.path.join(alt, "Cargo.toml"))
    os.makedirs(os.path.join(alt, ".cargo"), exist_ok=True)
    shutil.copy(os.path.join(HARNESS, ".cargo", "config.toml"), os.path.join(alt, ".cargo", "config.toml"))
    src_crates = os.path.join(HARNESS, "crates")
    dst_crates = os.path.join(alt, "crates")
    os.makedirs(dst_crates, exist_ok=True)
    for c in os.listdir(src_crates):
        s = os.path.join(src_crates, c)
        d = os.path.join(dst_crates, c)
        if not os.path.isdir(s):
            continue
        os.makedirs(d, exist_ok=True)
        for entry in os.listdir(s):
            sp, dp = os.path.join(s, entry), os.path.join(d, entry)
            if entry == "Cargo.toml":
                txt = open(sp).read().replace('"/repo/', '"' + root + "/")
                if not os.path.exists(dp) or open(dp).read() != txt:
                    open(dp, "w").write(txt)
            elif entry != "target":
                if os.path.islink(dp) or os.path.exists(dp):
                    if os.path.islink(dp):
                        os.unlink(dp)
                    else:
                        continue
                os.symlink(sp, dp)
    return alt


def build_harness(packages, timeout=1800):
    """cargo build --release -p <pkg>... (offline; path deps => rebuilt from the
    repo's current working tree). Returns the directory holding the binaries."""
    hd = _harness_dir()
    cmd = ["cargo", "build", "--release", "--offline"]
    for p in packages:
        cmd += ["-p", p]
    env = dict(os.environ, CARGO_NET_OFFLINE="true")
    t0 = time.time()
    try:
        r = subprocess.run(cmd, cwd=hd, env=env, stdout=subprocess.PIPE, stderr=subprocess.STDOUT,
                           text=True, timeout=timeout)
    except subprocess.TimeoutExpired:
        raise ToolError("cargo build timed out")
    if r.returncode != 0:
        log(r.stdout[-6000:])
        raise ToolError("cargo build failed (exit %d)" % r.returncode)
    log("[build] %s in %.1fs" % (" ".join(packages), time.time() - t0))
    return os.path.join(hd, "target", "release")


# --------------------------------------------------------------------------- TLC

class TlcResult:
    def __init__(self):
        self.rc = None
        self.out = ""
        self.generated = 0
        self.distinct = 0
        self.depth = 0
        self.violated = None       # name of violated invariant / property, if any
        self.error = None          # TLC evaluation error text, if any
        self.ok = False            # finished without violation or error
        self.zero_actions = []     # actions never taken (needs coverage=True)
        self.wall_s = 0.0

    def __repr__(self):
        return "TlcResult(ok=%s, distinct=%s, generated=%s, violated=%s, error=%s)" % (
            self.ok, self.distinct, self.generated, self.violated, (self.error or "")[:200])


_RE_STATES = re.compile(r"(\d[\d,]*) states generated, (\d[\d,]*) distinct states found")
_RE_DEPTH = re.compile(r"The depth of the complete state graph search is (\d+)")
_RE_INV = re.compile(r"Invariant (\S+) is violated")
_RE_PROP = re.compile(r"(?:Action property|Temporal properties were violated|property) ?(\S*)")


def tlc_cmd(module, cfg, workers=1, metadir=None, extra=None, java_opts=None, coverage=False,
            simulate=None, depth=None, deadlock=False):
    cmd = ["java", "-XX:+UseParallelGC"]
    if metadir:
        # concurrent TLC starts race on /tmp/tlc-*: give every run its own java.io.tmpdir
        os.makedirs(metadir, exist_ok=True)
        cmd.append("-Djava.io.tmpdir=" + metadir)
    cmd += (java_opts or [])
    cmd += ["-cp", TLA_CP, "tlc2.TLC", "-workers", str(workers), "-noGenerateSpecTE", "-cleanup"]
    if metadir:
        cmd += ["-metadir", metadir]
    if coverage:
        cmd += ["-coverage", "1"]
    if not deadlock:
        cmd += ["-deadlock"]
    if simulate:
        cmd += ["-simulate", simulate]
    if depth:
        cmd += ["-depth", str(depth)]
    cmd += (extra or [])
    cmd += ["-config", cfg, module]
    return cmd


def _isolated_copy(cwd):
    """TLC unpacks library modules (Json.tla, ...) into its working directory; concurrent TLC
    runs in one directory race on those files. Every run therefore gets a private copy of the
    spec directory (regular files only), removed afterwards."""
    os.makedirs(WORK, exist_ok=True)
    d = os.path.join(WORK, "specrun-%d-%d-%d" % (os.getpid(), int(time.time() * 1000) % 10**9, _counter()))
    os.makedirs(d)
    for name in os.listdir(cwd):
        sp = os.path.join(cwd, name)
        if os.path.isfile(sp) and os.path.getsize(sp) < 20 * 1024 * 1024:
            shutil.copy(sp, os.path.join(d, name))
    return d


_cnt = [0]
_cnt_lock = __import__("threading").Lock()


def _counter():
    with _cnt_lock:
        _cnt[0] += 1
        return _cnt[0]


def parse_tlc(out, res):
    for m in _RE_STATES.finditer(out):
        res.generated = int(m.group(1).replace(",", ""))
        res.distinct = int(m.group(2).replace(",", ""))
    m = _RE_DEPTH.search(out)
    if m:
        res.depth = int(m.group(1))
    m = _RE_INV.search(out)
    if m:
        res.violated = m.group(1)
    elif "Action property" in out and "is violated" in out:
        m2 = re.search(r"Action property (\S+) is violated", out)
        res.violated = m2.group(1) if m2 else "action-property"
    elif "Temporal properties were violated" in out:
        res.violated = "temporal-property"
    elif "Deadlock reached" in out:
        res.violated = "deadlock"
    if res.violated is None:
        m = re.search(r"Error: (.*(?:\n(?!\n).*){0,12})", out)
        if m and "Model checking completed. No error has been found" not in out:
            res.error = m.group(1)
    res.ok = ("No error has been found" in out or "Finished computing initial states" in out and res.rc == 0) \
        and res.violated is None and res.error is None
    if res.rc not in (0,) and res.violated is None and res.error is None:
        res.error = "TLC exit code %s" % res.rc
        res.ok = False
    # coverage: actions with 0 distinct states
    for m in re.finditer(r"<(\w+) line \d+, col \d+ to line \d+, col \d+ of module \w+>: (\d+):(\d+)", out):
        if int(m.group(3)) == 0 and m.group(1) not in res.zero_actions:
            res.zero_actions.append(m.group(1))
    # an action reported non-zero in a later coverage dump is not "zero"
    for m in re.finditer(r"<(\w+) line \d+, col \d+ to line \d+, col \d+ of module \w+>: (\d+):(\d+)", out):
        if int(m.group(3)) > 0 and m.group(1) in res.zero_actions:
            res.zero_actions.remove(m.group(1))
    return res


def run_tlc(module, cfg, cwd=SPEC, workers=1, timeout=600, env=None, extra=None, heap="4g",
            stack=None, coverage=False, deque=False, metadir=None, simulate=None, depth=None,
            deadlock=False, save_out=None, isolate=True):
    """Run TLC to completion and parse its output. `module`/`cfg` relative to cwd.
    Raises ToolError on time-out or TLC crash (but a violated invariant/property or an
    evaluation error is returned as a result, never raised)."""
    os.makedirs(WORK, exist_ok=True)
    md = metadir or os.path.join(WORK, "tlc-%d-%d-%d" % (os.getpid(), int(time.time() * 1000) % 10**9, _counter()))
    jopts = ["-Xmx" + heap]
    if stack:
        jopts.append("-Xss" + stack)
    if deque:
        jopts.append("-Dtlc2.tool.queue.IStateQueue=StateDeque")
    cmd = tlc_cmd(module, cfg, workers=workers, metadir=md, extra=extra, java_opts=jopts,
                  coverage=coverage, simulate=simulate, depth=depth, deadlock=deadlock)
    e = dict(os.environ)
    e.pop("JAVA_TOOL_OPTIONS", None)
    if env:
        e.update(env)
    res = TlcResult()
    t0 = time.time()
    cfg_abs = cfg if os.path.isabs(cfg) else os.path.join(cwd, cfg)
    rundir = _isolated_copy(cwd) if isolate else cwd
    if isolate:
        cmd[cmd.index("-config") + 1] = cfg_abs
    try:
        r = subprocess.run(cmd, cwd=rundir, env=e, stdout=subprocess.PIPE, stderr=subprocess.STDOUT,
                           text=True, timeout=timeout)
    except subprocess.TimeoutExpired:
        shutil.rmtree(md, ignore_errors=True)
        raise ToolError("TLC timed out after %ds: %s %s" % (timeout, module, cfg))
    finally:
        shutil.rmtree(md, ignore_errors=True)
        if isolate:
            shutil.rmtree(rundir, ignore_errors=True)
    res.wall_s = time.time() - t0
    res.rc = r.returncode
    res.out = r.stdout
    if save_out:
        open(save_out, "w").write(r.stdout)
    parse_tlc(r.stdout, res)
    log("[tlc] %s %s: distinct=%d generated=%d %.1fs ok=%s%s" % (
        module, os.path.basename(cfg), res.distinct, res.generated, res.wall_s, res.ok,
        (" VIOLATED " + str(res.violated)) if res.violated else ""))
    return res


def tlc_pipe(module, cfg, consumer_cmd, cwd=SPEC, timeout=900, env=None, heap="4g", stack=None,
             workers=1, extra=None, consumer_cwd=None, isolate=True):
    """tlc ... | consumer  (nothing is written to disk). Returns (TlcResult with the
    *tail* of TLC's non-export output, consumer return code, consumer stdout).
    The consumer reads TLC's stdout (PrintT lines interleaved with TLC's own messages)."""
    os.makedirs(WORK, exist_ok=True)
    md = os.path.join(WORK, "tlc-%d-%d-%d" % (os.getpid(), int(time.time() * 1000) % 10**9, _counter()))
    jopts = ["-Xmx" + heap]
    if stack:
        jopts.append("-Xss" + stack)
    cmd = tlc_cmd(module, cfg, workers=workers, metadir=md, extra=extra, java_opts=jopts)
    e = dict(os.environ)
    e.pop("JAVA_TOOL_OPTIONS", None)
    if env:
        e.update(env)
    t0 = time.time()
    cfg_abs = cfg if os.path.isabs(cfg) else os.path.join(cwd, cfg)
    rundir = _isolated_copy(cwd) if isolate else cwd
    if isolate:
        cmd[cmd.index("-config") + 1] = cfg_abs
    p1 = subprocess.Popen(cmd, cwd=rundir, env=e, stdout=subprocess.PIPE, stderr=subprocess.STDOUT)
    p2 = subprocess.Popen(consumer_cmd, cwd=consumer_cwd or VERIF, stdin=p1.stdout, stdout=subprocess.PIPE,
                          text=True, env=e)
    p1.stdout.close()
    try:
        out2, _ = p2.communicate(timeout=timeout)
        p1.wait(timeout=60)
    except subprocess.TimeoutExpired:
        p1.kill()
        p2.kill()
        shutil.rmtree(md, ignore_errors=True)
        raise ToolError("TLC export pipe timed out after %ds: %s %s" % (timeout, module, cfg))
    finally:
        shutil.rmtree(md, ignore_errors=True)
        if isolate:
            shutil.rmtree(rundir, ignore_errors=True)
    res = TlcResult()
    res.rc = p1.returncode
    res.wall_s = time.time() - t0
    return res, p2.returncode, out2


def validate_trace(module, cfg, trace_path, cwd=SPEC, timeout=600, heap="2g", env=None, extra_env=None):
    """Trace validation run: -workers 1, depth-first queue, -Xss1g, TRACE=<file>.
    The trace spec's POSTCONDITION must print a line starting with
    'TRACE REJECTED' (Print/PrintT) on rejection. Returns (accepted, TlcResult)."""
    e = {"TRACE": os.path.abspath(trace_path)}
    if extra_env:
        e.update(extra_env)
    res = run_tlc(module, cfg, cwd=cwd, workers=1, timeout=timeout, env=e, heap=heap, stack="1g", deque=True)
    accepted = res.ok and "TRACE REJECTED" not in res.out
    return accepted, res


# --------------------------------------------------------------------------- known findings

def load_known_findings():
    p = os.path.join(VERIF, "known_findings.json")
    if not os.path.exists(p):
        return {"findings": [], "fixed": []}
    return json.load(open(p))


# --------------------------------------------------------------------------- context

class Ctx:
    def __init__(self, pid, tier, seed, level="model_checking"):
        self.id = pid
        self.tier = tier
        self.seed = seed
        self.level = level
        self.t0 = time.time()
        self.violations = []       # list of (message, replay path)
        self.known = []            # list of messages
        self.drift = []
        self.notes = []
        self.coverage = {"states": 0, "transitions": 0, "traces_validated_against_impl": 0,
                         "samples": [], "evaluations": 0, "distinct_nontrivial": 0,
                         "rule": "", "exhaustive": False, "runs": []}
        self.assumptions = []
        # runs against another checkout (VERIF_REPO) get their own scratch directory and replay names
        self._suffix = "" if repo_root() == "/repo" else "-" + hashlib.sha1(repo_root().encode()).hexdigest()[:6]
        self.workdir = os.path.join(WORK, "%s-%s%s" % (pid, tier, self._suffix))
        shutil.rmtree(self.workdir, ignore_errors=True)
        os.makedirs(self.workdir, exist_ok=True)
        os.makedirs(REPLAYS, exist_ok=True)
        self._kf = load_known_findings()
        self._nrep = 0

    # -- bookkeeping
    def add_states(self, res, label=None):
        """Account a TLC model-checking run in the evidence."""
        self.coverage["states"] += res.distinct
        self.coverage["transitions"] += res.generated
        self.coverage["runs"].append({"what": label or "tlc", "distinct": res.distinct,
                                      "generated": res.generated, "depth": res.depth,
                                      "wall_s": round(res.wall_s, 1),
                                      "zero_count_actions": res.zero_actions})

    def add_run(self, label, **kw):
        d = {"what": label}
        d.update(kw)
        self.coverage["runs"].append(d)

    def sample(self, obj, limit=5):
        if len(self.coverage["samples"]) < limit:
            self.coverage["samples"].append(obj)

    def note(self, s):
        self.notes.append(s)
        log("[note] " + s)

    # -- verdicts
    def known_match(self, key):
        """key: a string identifying the failing input/site/history. Returns the
        finding entry if known_findings.json lists it for this property."""
        for f in self._kf.get("findings", []):
            if f.get("property") != self.id:
                continue
            pat = f.get("match")
            if pat and re.search(pat, key):
                return f
        return None

    def report(self, key, message, replay_obj):
        """Report a deviation that violates the property. `key` is matched against
        known_findings.json; unknown => VIOLATION with a replay file."""
        f = self.known_match(key)
        if f is not None:
            msg = "KNOWN-FINDING: property=%s %s" % (self.id, f.get("what", key))
            if msg not in self.known:
                self.known.append(msg)
                print(msg, flush=True)
            return False
        self._nrep += 1
        path = os.path.join(REPLAYS, "%s-%s%s-%d.json" % (self.id, self.tier, self._suffix, self._nrep))
        with open(path, "w") as fh:
            json.dump({"property": self.id, "key": key, "message": message, "replay": replay_obj}, fh, indent=1)
        self.violations.append((message, path))
        if len(self.violations) <= 20:
            print("VIOLATION property=%s replay=%s" % (self.id, path), flush=True)
            log("[violation] %s: %s" % (key, message))
        return True

    def report_drift(self, message):
        if len(self.drift) < 50:
            self.drift.append(message)
        if len(self.drift) <= 5:
            print("DRIFT property=%s %s" % (self.id, message), flush=True)

    def finish(self):
        cov = self.coverage
        cov["drift"] = self.drift
        cov["known_findings_reported"] = self.known
        cov["notes"] = self.notes
        if not cov["samples"]:
            cov["samples"] = ["(no sample recorded)"]
        ev = {
            "property_id": self.id,
            "tier": self.tier,
            "seed": self.seed,
            "level": self.level,
            "coverage": cov,
            "assumptions": self.assumptions,
            "wall_s": round(time.time() - self.t0, 2),
            "violations": len(self.violations),
        }
        os.makedirs(EVIDENCE, exist_ok=True)
        # only full runs on /repo itself write /verif/evidence (not --replay runs, not VERIF_REPO runs)
        evdir = EVIDENCE if (not self._suffix and not getattr(self, "replay_mode", False)) else self.workdir
        with open(os.path.join(evdir, self.id + ".json"), "w") as fh:
            json.dump(ev, fh, indent=1, sort_keys=True, default=str)
        return 1 if self.violations else 0


def run_harness(cmd, stdin=None, timeout=900, cwd=None, env=None):
    """Run a harness binary. Returns (rc, stdout). A crash of the harness *process*
    (signal, abort) is returned as rc<0 / rc>=128: the caller decides (usually a
    violation when the library panicked outside catch_unwind, e.g. a double panic)."""
    e = dict(os.environ)
    if env:
        e.update(env)
    try:
        r = subprocess.run(cmd, input=stdin, stdout=subprocess.PIPE, stderr=subprocess.PIPE, text=True,
                           timeout=timeout, cwd=cwd or VERIF, env=e)
    except subprocess.TimeoutExpired:
        raise ToolError("harness timed out: %s" % " ".join(cmd[:3]))
    if r.stderr:
        log(r.stderr[-3000:])
    return r.returncode, r.stdout


def read_ndjson(path):
    out = []
    with open(path) as fh:
        for line in fh:
            line = line.strip()
            if line:
                out.append(json.loads(line))
    return out
