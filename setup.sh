#!/bin/sh
# Build the harness workspace offline (path dependencies on /repo) and syntax-check the specs.
set -e
cd "$(dirname "$0")"
export CARGO_NET_OFFLINE=true
(cd harness && cargo build --release --offline 2>&1 | tail -3)
mkdir -p work evidence
echo "setup ok"
