#!/bin/bash
# tools/seedtest.sh <seed-dir> <property-id> <crate-dir> <crate-name> [tier]
# Confirms a seeded change (patch.diff + demo.rs) in a scratch worktree of /repo and runs the check against it.
# Writes /verif/seeded/<name>/ (patch.diff, demo.rs, README.md, meta.json, check.out). Removes the worktree afterwards.
set -u
SEED=$1; PROP=$2; CRDIR=$3; CRATE=$4; TIER=${5:-quick}
NAME=${PROP}-$(basename $(dirname $SEED/x))
[ -n "${SEEDNAME:-}" ] && NAME=$SEEDNAME
WT=/tmp/seedtest-$NAME
OUT=/verif/seeded/$NAME
mkdir -p $OUT
git -C /repo worktree add --detach $WT HEAD -q || exit 2
cp $SEED/patch.diff $OUT/; cp $SEED/demo.rs $OUT/ 2>/dev/null; cp $SEED/README.md $OUT/ 2>/dev/null
mkdir -p $WT/$CRDIR/tests; cp $SEED/demo.rs $WT/$CRDIR/tests/seed_demo.rs
cd $WT
demo_without=$(cargo test -p $CRATE --test seed_demo --offline 2>&1 | grep "test result" | tail -1)
git apply $SEED/patch.diff || { echo "patch does not apply"; exit 2; }
suite=$(cargo test -p $CRATE --offline --lib 2>&1 | grep "test result" | tail -1)
demo_with=$(cargo test -p $CRATE --test seed_demo --offline 2>&1 | grep "test result" | tail -1)
rm -f $WT/$CRDIR/tests/seed_demo.rs
cd /verif
VERIF_REPO=$WT ./check $PROP --tier $TIER > $OUT/check.out 2>&1
rc=$?
nviol=$(grep -c "^VIOLATION" $OUT/check.out)
python3 - "$OUT" "$PROP" "$TIER" "$rc" "$nviol" "$demo_without" "$suite" "$demo_with" <<'PY'
import json, sys, re, os
out, prop, tier, rc, nviol, dwo, suite, dw = sys.argv[1:9]
viol = [l.strip() for l in open(os.path.join(out, "check.out")) if l.startswith("[violation]")][:5]
readme = open(os.path.join(out, "README.md")).read() if os.path.exists(os.path.join(out, "README.md")) else ""
json.dump({"property": prop, "needs_to_manifest": "see README.md (written by the seeding agent)",
           "confirmed": {"demo_without_change": dwo, "existing_tests_with_change": suite, "demo_with_change": dw},
           "check": {"command": "VERIF_REPO=<worktree with patch> ./check %s --tier %s" % (prop, tier), "exit_code": int(rc),
                     "violation_lines": int(nviol), "first_violations": viol},
           "detected": int(rc) == 1 and int(nviol) > 0}, open(os.path.join(out, "meta.json"), "w"), indent=1)
print(open(os.path.join(out, "meta.json")).read())
PY
git -C /repo worktree remove --force $WT
h=$(python3 -c "import hashlib;print(hashlib.sha1('$WT'.encode()).hexdigest()[:10])")
rm -rf /verif/work/alt-$h
