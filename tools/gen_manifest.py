#!/usr/bin/env python3
"""Assemble /verif/MANIFEST.json from meta/<ID>.json fragments.
A property without a fragment is listed under not_applicable ("not built")."""
import json, os, subprocess, sys
V = os.path.dirname(os.path.dirname(os.path.abspath(__file__)))
props = [json.loads(l)["id"] for l in open(os.path.join(V, "properties.jsonl")) if l.strip()]
na_path = os.path.join(V, "meta", "_not_applicable.json")
na_reasons = json.load(open(na_path)) if os.path.exists(na_path) else {}
checks, na = [], []
for pid in props:
    p = os.path.join(V, "meta", pid + ".json")
    if not os.path.exists(p) or pid in na_reasons:
        na.append({"property_id": pid, "reason": na_reasons.get(pid, "not built: the TLA+ specification / binding for this property is not finished (see DESIGN.md section 8)")})
        continue
    m = json.load(open(p))
    c = {
        "property_id": pid,
        "quick_cmd": "./check %s --tier quick" % pid,
        "thorough_cmd": "./check %s --tier thorough" % pid,
        "evidence_file": "/verif/evidence/%s.json" % pid,
        "replay_cmd_template": "./check %s --replay {path}" % pid,
        "engine": m.get("engine", "tlc+harness"),
        "level_claimed": m["level_claimed"],
        "level_note": m["level_note"],
        "technique": m.get("technique", "explicit TLA+ specification checked with TLC, bound to the code by replay of TLC-generated behaviours and validation of recorded traces"),
    }
    checks.append(c)
try:
    commits = subprocess.run(["git", "-C", "/repo", "log", "--format=%h %s", "--grep=^verif hook"], stdout=subprocess.PIPE, text=True).stdout.strip().splitlines()
except Exception:
    commits = []
man = {
    "version": 1,
    "setup_cmd": "./setup.sh",
    "hooks": {
        "guard": "--cfg libtw2_verif",
        "enable": "harness/.cargo/config.toml: rustflags = [\"--cfg\", \"libtw2_verif\", \"--check-cfg\", \"cfg(libtw2_verif)\"]; the harness workspace has path dependencies on /repo's crates, so every check rebuilds them from the current working tree with the hooks on",
        "baseline_off_cmd": "cd /repo && cargo test --workspace --no-fail-fast --offline",
        "source_commits": commits,
        "add_only": True,
    },
    "engines": [
        {"name": "tlc+harness", "path": "/verif/check", "serves_properties": [c["property_id"] for c in checks],
         "kind_free_text": "python driver -> TLC 1.8 on spec/*.tla (model checking, behaviour export, trace validation) + Rust harness (harness/crates/*) that replays TLC behaviours into the real code and records traces of it"}
    ],
    "checks": checks,
    "not_applicable": na,
    "notes": "See DESIGN.md. Exit codes of ./check: 0 held / 1 VIOLATION / 2 tool failure. KNOWN-FINDING lines come from known_findings.json (read-only at run time). VERIF_REPO=<dir> runs a check against another checkout of the repository.",
}
json.dump(man, open(os.path.join(V, "MANIFEST.json"), "w"), indent=1)
print("checks:", [c["property_id"] for c in checks], "not_applicable:", [n["property_id"] for n in na])
