#!/bin/bash
# tools/bentest.sh <change-dir> <name> <prop> [<prop>...]
# Applies a property-preserving change (patch.diff) in a scratch worktree of /repo and runs the quick checks
# of the given properties against it. Expected: every check exits 0 (DRIFT lines allowed).
# Writes /verif/seeded/benign/<name>/ (patch.diff, README.md, meta.json, <prop>.out).
set -u
SRC=$1; NAME=$2; shift 2
WT=/tmp/bentest-$NAME
OUT=/verif/seeded/benign/$NAME
mkdir -p $OUT
git -C /repo worktree add --detach $WT HEAD -q || exit 2
cp $SRC/patch.diff $OUT/; cp $SRC/README.md $OUT/ 2>/dev/null
cd $WT && git apply $SRC/patch.diff || { echo "patch does not apply"; git -C /repo worktree remove --force $WT; exit 2; }
cd /verif
res="{"
for P in "$@"; do
  VERIF_REPO=$WT ./check $P --tier quick > $OUT/$P.out 2>&1
  rc=$?
  nv=$(grep -c "^VIOLATION" $OUT/$P.out); nd=$(grep -c "^DRIFT" $OUT/$P.out)
  res="$res\"$P\": {\"exit_code\": $rc, \"violation_lines\": $nv, \"drift_lines\": $nd},"
done
res="${res%,}}"
python3 - "$OUT" "$res" <<'PY'
import json, sys, os
out, res = sys.argv[1:3]
r = json.loads(res)
json.dump({"kind": "property-preserving change (false-alarm test)", "checks": r,
           "false_alarm": any(v["exit_code"] == 1 for v in r.values()),
           "tool_failure": any(v["exit_code"] not in (0, 1) for v in r.values())}, open(os.path.join(out, "meta.json"), "w"), indent=1)
print(open(os.path.join(out, "meta.json")).read())
PY
git -C /repo worktree remove --force $WT
h=$(python3 -c "import hashlib;print(hashlib.sha1('$WT'.encode()).hexdigest()[:10])")
rm -rf /verif/work/alt-$h
