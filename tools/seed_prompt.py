#!/usr/bin/env python3
"""tools/seed_prompt.py <ID> <first-number> -> the prompt given to a fresh seeding sub-agent.

The agent gets the text of one property, the one-line titles of the changes already made for it
(so that it looks elsewhere) and the path of a scratch worktree to create -- nothing from /verif.
"""
import json, os, sys, glob

pid, first = sys.argv[1], int(sys.argv[2])
prop = next(json.loads(l) for l in open("/verif/properties.jsonl") if json.loads(l)["id"] == pid)
titles = []
for d in sorted(glob.glob("/verif/seeded/%s-*" % pid), key=lambda p: int(p.rsplit("-", 1)[1])):
    r = os.path.join(d, "README.md")
    if os.path.exists(r):
        t = open(r).readline().strip().lstrip("# ").strip()
        titles.append("  - " + t[:220])
base = "/tmp/seed5/%s" % pid
print(f"""You are helping to evaluate a verification framework for the Rust repository heinrich5991/libtw2
(Teeworlds/DDNet protocol libraries), checked out at /repo. Your job is to write TWO independent, realistic
code changes ("seeded defects") that each break the semantic property below while the code still compiles
and the repository's existing tests still pass. They will be used to find out whether the framework notices.

Rules of the exercise (important):
* Do NOT read, list or search anything under /verif, and do not look at other directories under /tmp. Your
  changes must be independent of what the framework can already detect.
* Never modify /repo itself. Work only in your own scratch git worktree:
      git -C /repo worktree add --detach {base}/wt HEAD
  (cargo builds there use {base}/wt/target; always pass --offline; there is no network.)
* Each change must: (1) compile without new warnings that would look suspicious, (2) leave the existing tests
  green (`cargo test -p <crate> --offline` for every crate you touch and every crate that depends on it in the
  obvious way; the workspace has ~204 tests), (3) really break the property as stated — not merely change an
  implementation detail the property does not talk about, (4) look like something a maintainer could plausibly
  commit (an "optimisation", a refactoring, a simplification, a misplaced check, a boundary slip), and
  (5) need something SPECIFIC to manifest: a particular interleaving or fault pattern, a multi-step sequence of
  operations, an unusual input or boundary value, a particular protocol variant, or two cooperating sites that
  each look fine alone. Changes that ordinary use exposes at once are not wanted. The two changes should be in
  different functions / mechanisms.
* For each change write a demonstration `demo.rs`: a self-contained Rust integration-test file that will be
  copied to `<crate dir>/tests/seed_demo.rs` and run with `cargo test -p <cargo package> --test seed_demo --offline`.
  It may use only the crate's public API and the crate's existing (dev-)dependencies. It must PASS without your
  change and FAIL with it. Verify both yourself.

Deliver, for change k in {{1, 2}}, the directory {base}/{{k}}/ containing exactly:
  patch.diff   `git diff` of the worktree against HEAD for this change only (must apply with `git apply` at the
               repository root of a clean checkout of HEAD)
  demo.rs      the demonstration described above
  README.md    first line: a one-line title of the change (plain text). Then: what the change is; which clause of
               the property it breaks; exactly what it needs in order to manifest; the line
               `Crate directory: <dir>, cargo package: <name>` for the crate the demo belongs to; what you ran and
               what you observed (existing tests with the change, demo with and without the change).
When you are done, reset the worktree and remove it together with its build output:
      git -C /repo worktree remove --force {base}/wt
Your final message: the two titles, and for each the crate directory / package and one sentence on the trigger.

THE PROPERTY ({pid}): {prop['title']}
Statement: {prop['statement']}
Quantified over: {prop['quantifier']['text']}
Anchored in: {', '.join(prop['anchors']['files'])}

Changes that were already made for this property in earlier rounds (do something different — another mechanism,
another variant, another phase, another boundary):
{chr(10).join(titles) if titles else '  (none)'}

Number your two changes {first} and {first + 1} in the README titles' context only; the directories are 1 and 2.
Prefer triggers that combine two dimensions (e.g. a protocol variant x a boundary value, a fault pattern x a
particular phase, a rarely used API entry point x a state) over single obvious boundary slips.
""")
