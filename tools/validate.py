#!/opt/veriftools/pyvenv/bin/python
"""Validate MANIFEST.json and evidence/*.json against the schemas."""
import json, glob, sys, jsonschema
ok = True
def v(path, schema):
    global ok
    try:
        jsonschema.validate(json.load(open(path)), json.load(open(schema)))
        print("valid  ", path)
    except Exception as e:
        ok = False
        print("INVALID", path, str(e)[:300])
v("/verif/MANIFEST.json", "/root/.vp/MANIFEST.schema.json")
for p in sorted(glob.glob("/verif/evidence/C*.json")):
    v(p, "/root/.vp/EVIDENCE.schema.json")
sys.exit(0 if ok else 1)
