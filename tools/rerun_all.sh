#!/bin/bash
# tools/rerun_all.sh seeded|benign <jobs> [<filter-regex>]
# Re-runs every stored seeded change (must be reported: exit 1 + VIOLATION) or every stored property-preserving
# change (must pass: exit 0) against the checks as they are now, <jobs> at a time. Rewrites meta.json/check.out.
# Crate directory / package for the demo are taken from the README ("Crate directory: X, cargo package: Y").
set -u
KIND=$1; JOBS=${2:-3}; FILTER=${3:-.}
cd /verif
run_seed() {
  d=$1; id=$(basename $d); prop=${id%%-*}
  line=$(grep -i -m1 "crate director" $d/README.md 2>/dev/null)
  dir=$(echo "$line" | sed -E 's/.*[Cc]rate director(y|ies):?\s*`?([A-Za-z0-9_./-]+)`?.*/\2/' | sed 's#/$##')
  pkg=$(echo "$line" | sed -E 's/.*cargo package:?\s*`?([A-Za-z0-9_.-]+)`?.*/\1/')
  if [ -z "$dir" ] || [ -z "$pkg" ] || [ ! -d /repo/$dir ]; then
    # older READMEs: fall back to the component's crate
    case $prop in C01|C02|C03|C04|C05|C06|C20) dir=net; pkg=libtw2-net;; C07) dir=huffman; pkg=libtw2-huffman;;
      C08) dir=packer; pkg=libtw2-packer;; C09|C10|C11|C12|C13) dir=snapshot; pkg=libtw2-snapshot;;
      C15) dir=demo; pkg=libtw2-demo;; C16) dir=datafile; pkg=libtw2-datafile;; C17) dir=teehistorian; pkg=libtw2-teehistorian;;
      C18) dir=serverbrowse; pkg=libtw2-serverbrowse;; C19) dir=buffer; pkg=libtw2-buffer;; *) dir=; pkg=;; esac
  fi
  SEEDNAME=$id tools/seedtest.sh /verif/seeded/$id $prop "$dir" "$pkg" > work/rerun-$id.log 2>&1
  python3 -c "import json;m=json.load(open('/verif/seeded/$id/meta.json'));print('$id','detected' if m['detected'] else 'MISSED rc=%d'%m['check']['exit_code'])"
}
run_ben() {
  d=$1; id=$(basename $d)
  props=$(python3 -c "import json;print(' '.join(json.load(open('$d/meta.json'))['checks'].keys()))")
  tools/bentest.sh /verif/$d $id $props > work/rerun-ben-$id.log 2>&1
  python3 -c "import json;m=json.load(open('$d/meta.json'));print('$id','FALSE-ALARM' if m['false_alarm'] else ('tool-failure' if m['tool_failure'] else 'quiet'))"
}
export -f run_seed run_ben
mkdir -p work
if [ "$KIND" = seeded ]; then
  ls -d seeded/C* | grep -E "$FILTER" | xargs -P $JOBS -I{} bash -c 'run_seed {}'
else
  ls -d seeded/benign/* | grep -E "$FILTER" | xargs -P $JOBS -I{} bash -c 'run_ben {}'
fi
